package interp

// Maps with symbolic keys, schedule-choice iteration, frozen-object monitor,
// concretisation helpers.

import (
	"fmt"
	"go/token"
	"go/types"
	"reflect"
	"sort"
	"strings"

	"golang.org/x/tools/go/ssa"
)

func sliceHasSym(x value) bool {
	if s, ok := x.([]value); ok {
		for _, e := range s {
			if _, ok := e.(symInt); ok {
				return true
			}
		}
	}
	return false
}

func (st *pstate) concretize(x value) value { return x }

// concInt turns a symbolic integer into the unique concrete value the path
// condition allows, or aborts the path as unsupported.
func (st *pstate) concInt(v value) value {
	si, ok := v.(symInt)
	if !ok {
		return v
	}
	if st.sol.check() != "sat" {
		panic(unsupported("symbolic index: path condition not sat/unknown"))
	}
	st.sol.send(fmt.Sprintf("(get-value (%s))", si.t))
	txt := st.sol.readLine()
	for strings.Count(txt, "(") != strings.Count(txt, ")") {
		txt += " " + st.sol.readLine()
	}
	toks := tokenizeSexp(txt)
	valTok := ""
	for i := len(toks) - 1; i >= 0; i-- {
		if strings.HasPrefix(toks[i], "#") {
			valTok = toks[i]
			break
		}
	}
	if valTok == "" {
		panic(unsupported("symbolic index: cannot read model value"))
	}
	if !st.mustHold("(= " + si.t + " " + valTok + ")") {
		panic(unsupported("symbolic integer used as index/length with more than one possible value at " + st.where()))
	}
	u := parseBV(valTok)
	bits := kindBits(si.k)
	if kindSigned(si.k) {
		switch bits {
		case 8:
			return int64(int8(u))
		case 16:
			return int64(int16(u))
		case 32:
			return int64(int32(u))
		}
		return int64(u)
	}
	return u
}

// indexSplit: a symbolic index into a table of concrete scalars (a lookup table such as utf8's first[256]) is
// case-split by the VALUE found there: the indices holding the same value form one case, whose condition is a
// disjunction of index ranges; the index returned is a representative of the chosen case (the table is only read -
// tables of other packages are frozen, a store through the address would abort the path anyway).  Anything else
// falls back to concInt (unique value or unsupported).
func (st *pstate) indexSplit(x value, idx value) value {
	si, ok := idx.(symInt)
	if !ok {
		return idx
	}
	var elems []value
	switch t := x.(type) {
	case []value:
		elems = t
	case array:
		elems = t
	case *value:
		if t != nil {
			if a, ok := (*t).(array); ok {
				elems = a
			}
		}
	}
	if len(elems) < 2 || len(elems) > 1024 {
		return st.concInt(idx)
	}
	type run struct{ lo, hi int }
	groups := map[interface{}][]run{}
	var order []interface{}
	for i, e := range elems {
		switch e.(type) {
		case uint8, int8, uint16, int16, uint32, int32, uint64, int64, int, uint, bool:
		default:
			return st.concInt(idx)
		}
		r := groups[e]
		if len(r) > 0 && r[len(r)-1].hi == i-1 {
			r[len(r)-1].hi = i
		} else {
			if len(r) == 0 {
				order = append(order, e)
			}
			r = append(r, run{i, i})
		}
		groups[e] = r
	}
	if len(order) > 24 {
		return st.concInt(idx)
	}
	bits := kindBits(si.k)
	lit := func(n int) string { return fmt.Sprintf("(_ bv%d %d)", n, bits) }
	for _, e := range order {
		var alts []string
		for _, r := range groups[e] {
			if r.lo == r.hi {
				alts = append(alts, "(= "+si.t+" "+lit(r.lo)+")")
			} else {
				alts = append(alts, "(and (bvuge "+si.t+" "+lit(r.lo)+") (bvule "+si.t+" "+lit(r.hi)+"))")
			}
		}
		if st.branch(tOr(alts...)) {
			return int64(groups[e][0].lo)
		}
	}
	panic(targetPanic{fmt.Errorf("runtime error: index out of range [symbolic] with length %d", len(elems))})
}

func (st *pstate) where() string {
	return st.panicSite
}

// ---- insertion order side table

type mapOrd struct {
	m    map[value]value
	keys []value
}

func mapID(m map[value]value) uintptr { return reflect.ValueOf(m).Pointer() }

func (st *pstate) ordOf(m map[value]value) *mapOrd {
	id := mapID(m)
	if o, ok := st.w.pathOrd[id]; ok {
		return o
	}
	if o, ok := st.w.warmOrd[id]; ok {
		return o
	}
	o := &mapOrd{m: m}
	// unknown provenance: adopt a deterministic order where possible
	keys := make([]value, 0, len(m))
	for k := range m {
		keys = append(keys, k)
	}
	sort.Slice(keys, func(i, j int) bool { return toString(keys[i]) < toString(keys[j]) })
	o.keys = keys
	if st.w.warmDone {
		st.w.pathOrd[id] = o
	} else {
		st.w.warmOrd[id] = o
	}
	return o
}

func (st *pstate) noteInsert(m map[value]value, k value) {
	o := st.ordOf(m)
	o.keys = append(o.keys, k)
}

// resolveKey finds the existing key equal to k, forking on equality formulas
// for symbolic strings.  It returns the key object to use and whether present.
func (st *pstate) resolveKey(m map[value]value, k value) (value, bool) {
	if m == nil {
		return k, false
	}
	_, ksym := k.(symStr)
	if _, isOpaque := k.(opaqueStr); isOpaque {
		panic(unsupported("opaque string used as map key"))
	}
	if !ksym {
		if _, ok := k.(string); !ok {
			_, present := m[k]
			return k, present
		}
	}
	// string key: any symbolic key in the map?
	anySym := ksym
	if !anySym {
		if _, present := m[k]; present {
			// a concrete key equal to a concrete key; symbolic keys in the map are
			// distinct from it under PC (invariant: keys pairwise distinct)
			return k, true
		}
		for e := range m {
			if _, ok := e.(symStr); ok {
				anySym = true
				break
			}
		}
		if !anySym {
			return k, false
		}
	}
	o := st.ordOf(m)
	for _, e := range o.keys {
		if _, present := m[e]; !present {
			continue
		}
		if !isStrVal(e) {
			continue
		}
		if _, esym := e.(symStr); !esym && !ksym {
			continue
		}
		eq := strEqTerm(k, e)
		if st.branch(eq) {
			return e, true
		}
	}
	return k, false
}

// ---- iteration

type choiceIter struct {
	st     *pstate
	fr     *frame
	m      map[value]value
	ord    *mapOrd
	n0     int // number of recorded insertions at start
	policy string
	done   map[int]bool // indices into ord.keys already delivered
	perm   []int        // for rot: fixed order (indices)
	pos    int
	started bool
	guard  ssa.Value // skip-guard reduction: the map X of `for k := range m { if X[k] { continue } ... }`
}

// skipGuard recognises the loop shape
//
//	for k := range m { if X[k] { continue }; ... }
//
// structurally on the SSA and returns X.  For such a loop the iteration of a
// key that is already marked in X is a no-op at whatever position it is
// delivered (X only matters through this test and a marked key stays a no-op
// as long as it stays marked), so only the relative order of the currently
// unmarked keys is a schedule choice; marked keys are delivered last.  The
// reduction is applied only while every marked key is mapped to the constant
// true and nothing in the loop can unmark a key is NOT assumed: a key is
// re-classified at every step.
func skipGuard(r *ssa.Range) ssa.Value {
	refs := r.Referrers()
	if refs == nil {
		return nil
	}
	var next *ssa.Next
	for _, ref := range *refs {
		if n, ok := ref.(*ssa.Next); ok {
			if next != nil {
				return nil
			}
			next = n
		}
	}
	if next == nil {
		return nil
	}
	loop := next.Block()
	ifi, ok := loop.Instrs[len(loop.Instrs)-1].(*ssa.If)
	if !ok {
		return nil
	}
	body := loop.Succs[0]
	_ = ifi
	var key ssa.Value
	var lk *ssa.Lookup
	for _, in := range body.Instrs {
		switch x := in.(type) {
		case *ssa.DebugRef:
			continue
		case *ssa.Extract:
			if x.Tuple == next && x.Index == 1 && key == nil {
				key = x
				continue
			}
			return nil
		case *ssa.Lookup:
			if lk == nil && key != nil && x.Index == key && !x.CommaOk {
				if mt, ok := x.X.Type().Underlying().(*types.Map); ok {
					if b, ok := mt.Elem().Underlying().(*types.Basic); ok && b.Kind() == types.Bool {
						lk = x
						continue
					}
				}
			}
			return nil
		case *ssa.If:
			if lk != nil && x.Cond == lk && body.Succs[0] == loop {
				return lk.X
			}
			return nil
		default:
			return nil
		}
	}
	return nil
}

func (st *pstate) schedPolicy(fr *frame) string {
	cfg := &st.ex.Cfg
	if len(cfg.SchedScope) > 0 {
		// dynamic scope: map ranges are schedule sites only while one of the named functions is on the stack
		in := false
		for f := fr; f != nil && !in; f = f.caller {
			name := f.fn.String()
			for _, s := range cfg.SchedScope {
				if strings.Contains(name, s) {
					in = true
					break
				}
			}
		}
		if !in {
			return "first"
		}
	}
	if fr.fn.Pkg == nil || !strings.HasPrefix(fr.fn.Pkg.Pkg.Path(), cfg.RepoPrefix) || cfg.RepoPrefix == "" {
		// dependencies: only the named functions (e.g. gonum's map iterator)
		name := fr.fn.String()
		for _, s := range cfg.SchedDeps {
			if strings.Contains(name, s) {
				return cfg.Sched
			}
		}
		return "first"
	}
	if isHarnessFn(fr.fn) {
		return "first"
	}
	if len(cfg.SchedFuncs) == 0 {
		return cfg.Sched
	}
	name := fr.fn.String()
	for _, s := range cfg.SchedFuncs {
		if strings.Contains(name, s) {
			return cfg.Sched
		}
	}
	return cfg.SchedOther
}

func isHarnessFn(fn *ssa.Function) bool {
	f := fn
	for f.Parent() != nil {
		f = f.Parent()
	}
	if f.Pkg != nil && strings.HasSuffix(f.Pkg.Pkg.Path(), "/zzverif") {
		return true
	}
	pos := f.Pos()
	if !pos.IsValid() {
		if syn := f.Syntax(); syn != nil {
			pos = syn.Pos()
		}
	}
	if pos.IsValid() {
		file := f.Prog.Fset.Position(pos).Filename
		return strings.Contains(file, "zz_verif")
	}
	return false
}

func (st *pstate) rangeIter(fr *frame, instr *ssa.Range, x value) iter {
	switch x := x.(type) {
	case map[value]value:
		it := &choiceIter{st: st, fr: fr, m: x, done: map[int]bool{}}
		if x != nil {
			it.ord = st.ordOf(x)
			it.n0 = len(it.ord.keys)
		}
		it.policy = st.schedPolicy(fr)
		if it.policy != "first" && !st.ex.Cfg.NoSkipGuard {
			it.guard = skipGuard(instr)
		}
		return it
	case symStr:
		return &symStringIter{st: st, s: x}
	}
	return rangeIter(x, instr.X.Type())
}

func (it *choiceIter) candidates() []int {
	if it.ord == nil {
		return nil
	}
	var c []int
	seenKey := map[value]bool{}
	for i, k := range it.ord.keys {
		if i >= it.n0 {
			// key inserted while ranging: Go leaves unspecified whether it is produced
			if _, present := it.m[k]; present && !seenKey[k] {
				if !it.insertedBefore(k) {
					panic(unsupported("insertion into a map that is being ranged over"))
				}
			}
			continue
		}
		if it.done[i] || seenKey[k] {
			continue
		}
		if _, present := it.m[k]; !present {
			continue
		}
		seenKey[k] = true
		c = append(c, i)
	}
	return c
}

func (it *choiceIter) insertedBefore(k value) bool {
	for i := 0; i < it.n0; i++ {
		if it.ord.keys[i] == k {
			return true
		}
	}
	return false
}

func (it *choiceIter) next() tuple {
	c := it.candidates()
	if len(c) == 0 {
		return tuple{false, nil, nil}
	}
	if it.guard != nil {
		// skip-guard reduction: only unmarked keys are schedule choices
		if gm, ok := it.fr.get(it.guard).(map[value]value); ok {
			var unmarked, marked []int
			for _, i := range c {
				k := it.ord.keys[i]
				if _, isStr := k.(string); !isStr {
					unmarked = nil
					marked = nil
					break
				}
				if b, ok := gm[k].(bool); ok && b {
					marked = append(marked, i)
				} else {
					unmarked = append(unmarked, i)
				}
			}
			if len(unmarked) > 0 {
				c = unmarked
			} else if len(marked) > 0 {
				idx := marked[0]
				it.done[idx] = true
				k := it.ord.keys[idx]
				return tuple{true, k, it.m[k]}
			}
		}
	}
	if it.st.ex.Cfg.MapOrder == "reverse" {
		for i, j := 0, len(c)-1; i < j; i, j = i+1, j-1 {
			c[i], c[j] = c[j], c[i]
		}
	}
	var idx int
	switch it.policy {
	case "all":
		idx = c[it.st.choose(len(c), DSchedule, it.fr, true)]
	case "rot":
		if !it.started {
			it.started = true
			n := len(c)
			r := 0
			if n > 1 {
				r = it.st.choose(n+1, DSchedule, it.fr, true)
			}
			if r == n {
				for i := n - 1; i >= 0; i-- {
					it.perm = append(it.perm, c[i])
				}
			} else {
				for i := 0; i < n; i++ {
					it.perm = append(it.perm, c[(i+r)%n])
				}
			}
		}
		idx = -1
		for it.pos < len(it.perm) {
			cand := it.perm[it.pos]
			it.pos++
			ok := false
			for _, x := range c {
				if x == cand {
					ok = true
					break
				}
			}
			if ok {
				idx = cand
				break
			}
		}
		if idx < 0 {
			return tuple{false, nil, nil}
		}
	default:
		idx = c[0]
	}
	it.done[idx] = true
	k := it.ord.keys[idx]
	return tuple{true, k, it.m[k]}
}

// symStringIter ranges over a string with symbolic bytes: ASCII bytes are
// single runes; a byte that may be >= 0x80 ends the path as unsupported.
type symStringIter struct {
	st *pstate
	s  *symS
	i  int
}

func (it *symStringIter) next() tuple {
	if it.i >= len(it.s.b) {
		return tuple{false, nil, nil}
	}
	b := it.s.b[it.i]
	i := it.i
	it.i++
	switch bb := b.(type) {
	case uint8:
		if bb < 0x80 {
			return tuple{true, i, rune(bb)}
		}
		panic(unsupported("range over string: non-ASCII constant byte next to symbolic bytes"))
	case symInt:
		if !it.st.branch("(bvult " + bb.t + " #x80)") {
			panic(unsupported("range over string: non-ASCII symbolic byte"))
		}
		return tuple{true, i, symInt{"((_ zero_extend 24) " + bb.t + ")", types.Int32}}
	}
	panic(unsupported("range over string"))
}

// ---- frozen objects (C13 monitor)

func (st *pstate) freeze(label string, v value) {
	seen := map[*value]bool{}
	var walk func(v value)
	var walkCell func(p *value)
	walkCell = func(p *value) {
		if p == nil || seen[p] {
			return
		}
		seen[p] = true
		st.frozen[p] = label
		switch c := (*p).(type) {
		case structure:
			for i := range c {
				walkCell(&c[i])
			}
		case array:
			for i := range c {
				walkCell(&c[i])
			}
		default:
			walk(c)
		}
	}
	walk = func(v value) {
		switch x := v.(type) {
		case *value:
			walkCell(x)
		case []value:
			full := x[:cap(x)]
			for i := range full {
				walkCell(&full[i])
			}
		case map[value]value:
			if x != nil {
				st.frozenMaps[mapID(x)] = label
				o := st.ordOf(x)
				for _, k := range o.keys {
					if e, ok := x[k]; ok {
						walk(e)
					}
				}
			}
		case iface:
			walk(x.v)
		case structure:
			for _, e := range x {
				walk(e)
			}
		case array:
			for _, e := range x {
				walk(e)
			}
		}
	}
	walk(v)
}

func (st *pstate) checkStore(fr *frame, instr *ssa.Store, addr *value) {
	if len(st.frozen) > 0 {
		if label, ok := st.frozen[addr]; ok && !isHarnessFn(fr.fn) {
			st.report("frozen", "frozen:"+label, fr.fn.String(), "store into frozen object "+label+" at "+fr.i.prog.Fset.Position(instr.Pos()).String(), true)
		}
	}
	if name, ok := st.w.globalCells[addr]; ok && st.w.warmDone {
		if !strings.HasPrefix(fr.fn.Name(), "init") && !isHarnessFn(fr.fn) {
			st.report("global-store", "global-store:"+name, fr.fn.String(), "store into package-level variable "+name, true)
		}
	}
}

func (st *pstate) checkMapWrite(fr *frame, m value) {
	if len(st.frozenMaps) == 0 {
		return
	}
	if mm, ok := m.(map[value]value); ok && mm != nil {
		if label, ok := st.frozenMaps[mapID(mm)]; ok && !isHarnessFn(fr.fn) {
			st.report("frozen", "frozen:"+label, fr.fn.String(), "write to frozen map "+label, true)
		}
	}
}

func (st *pstate) checkAppend(fr *frame, s []value, n int) {
	if len(st.frozen) == 0 || n == 0 {
		return
	}
	if len(s)+n <= cap(s) {
		full := s[:cap(s)]
		for i := len(s); i < len(s)+n; i++ {
			if label, ok := st.frozen[&full[i]]; ok && !isHarnessFn(fr.fn) {
				st.report("frozen", "frozen:"+label, fr.fn.String(), "append in place into frozen backing array "+label, true)
				return
			}
		}
	}
}

func (st *pstate) checkCopy(fr *frame, dst []value, n int) {
	if len(st.frozen) == 0 {
		return
	}
	if n > len(dst) {
		n = len(dst)
	}
	for i := 0; i < n; i++ {
		if label, ok := st.frozen[&dst[i]]; ok && !isHarnessFn(fr.fn) {
			st.report("frozen", "frozen:"+label, fr.fn.String(), "copy into frozen slice "+label, true)
			return
		}
	}
}

var _ = token.NoPos
