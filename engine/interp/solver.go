package interp

import (
	"bufio"
	"fmt"
	"io"
	"os/exec"
	"strings"
	"time"
)

// solver is one long-lived SMT solver process (z3 5.x by default) driven with
// push/pop.  Any "(error" line makes the current query inconclusive.
type solver struct {
	cmd     *exec.Cmd
	in      *bufio.Writer
	inc     io.WriteCloser
	out     *bufio.Reader
	calls   int
	sat     int
	unsat   int
	unknown int
	errors  int
	dur     time.Duration
	log     io.Writer // optional transcript
	lastErr string
}

func newSolver(bin string, timeoutMs int, transcript io.Writer) *solver {
	args := []string{"-in"}
	if strings.Contains(bin, "cvc5") {
		args = []string{"--incremental", "--lang=smt2", fmt.Sprintf("--tlimit-per=%d", timeoutMs)}
	}
	cmd := exec.Command(bin, args...)
	in, _ := cmd.StdinPipe()
	outp, _ := cmd.StdoutPipe()
	cmd.Stderr = nil
	if err := cmd.Start(); err != nil {
		panic(fmt.Sprintf("cannot start solver %s: %v", bin, err))
	}
	s := &solver{cmd: cmd, inc: in, in: bufio.NewWriterSize(in, 1<<16), out: bufio.NewReaderSize(outp, 1<<16), log: transcript}
	if strings.Contains(bin, "cvc5") {
		s.send("(set-logic ALL)")
		s.send("(set-option :produce-models true)")
	} else {
		s.send(fmt.Sprintf("(set-option :timeout %d)", timeoutMs))
		s.send("(set-option :produce-models true)")
	}
	return s
}

func (s *solver) send(x string) {
	s.in.WriteString(x)
	s.in.WriteByte('\n')
	if s.log != nil {
		io.WriteString(s.log, x+"\n")
	}
}

func (s *solver) readLine() string {
	s.in.Flush()
	line, err := s.out.ReadString('\n')
	if err != nil {
		panic(engineAbort{"solver-died", "solver pipe closed: " + err.Error()})
	}
	return strings.TrimSpace(line)
}

// check returns "sat", "unsat" or "unknown" (errors are mapped to unknown).
func (s *solver) check() string {
	t0 := time.Now()
	s.send("(check-sat)")
	var r string
	for {
		line := s.readLine()
		if line == "" {
			continue
		}
		if strings.HasPrefix(line, "(error") {
			s.errors++
			s.lastErr = line
			// drain: an error line is followed by the verdict (or not) - z3 prints
			// the verdict anyway for check-sat after a bad assert.
			continue
		}
		r = line
		break
	}
	s.calls++
	s.dur += time.Since(t0)
	switch r {
	case "sat":
		s.sat++
	case "unsat":
		s.unsat++
	default:
		s.unknown++
		r = "unknown"
	}
	if s.lastErr != "" {
		r = "unknown"
	}
	return r
}

// getValues returns the textual values of the given constant names.
func (s *solver) getValues(names []string) map[string]string {
	out := map[string]string{}
	const chunk = 200
	for i := 0; i < len(names); i += chunk {
		j := i + chunk
		if j > len(names) {
			j = len(names)
		}
		s.send("(get-value (" + strings.Join(names[i:j], " ") + "))")
		txt := ""
		for {
			line := s.readLine()
			txt += line + " "
			if strings.HasPrefix(line, "(error") {
				s.errors++
				break
			}
			if strings.Count(txt, "(") == strings.Count(txt, ")") && strings.TrimSpace(txt) != "" {
				break
			}
		}
		parseValues(txt, out)
	}
	return out
}

// parseValues parses "((a #x01) (b true) (s "xy"))".
func parseValues(txt string, out map[string]string) {
	toks := tokenizeSexp(txt)
	// expect ( ( name val ) ... )
	i := 0
	if i < len(toks) && toks[i] == "(" {
		i++
	}
	for i < len(toks) {
		if toks[i] != "(" {
			i++
			continue
		}
		i++
		if i >= len(toks) {
			break
		}
		name := toks[i]
		i++
		// value: atom or parenthesised
		if i < len(toks) && toks[i] == "(" {
			depth := 0
			start := i
			for i < len(toks) {
				if toks[i] == "(" {
					depth++
				} else if toks[i] == ")" {
					depth--
					if depth == 0 {
						i++
						break
					}
				}
				i++
			}
			out[name] = strings.Join(toks[start:i], " ")
		} else if i < len(toks) {
			out[name] = toks[i]
			i++
		}
		if i < len(toks) && toks[i] == ")" {
			i++
		}
	}
}

func tokenizeSexp(s string) []string {
	var toks []string
	i := 0
	for i < len(s) {
		c := s[i]
		switch {
		case c == '(' || c == ')':
			toks = append(toks, string(c))
			i++
		case c == ' ' || c == '\n' || c == '\t' || c == '\r':
			i++
		case c == '"':
			j := i + 1
			for j < len(s) {
				if s[j] == '"' {
					if j+1 < len(s) && s[j+1] == '"' {
						j += 2
						continue
					}
					break
				}
				j++
			}
			toks = append(toks, s[i:j+1])
			i = j + 1
		default:
			j := i
			for j < len(s) && !strings.ContainsRune("() \n\t\r", rune(s[j])) {
				j++
			}
			toks = append(toks, s[i:j])
			i = j
		}
	}
	return toks
}

func (s *solver) close() {
	s.in.Flush()
	s.inc.Close()
	s.cmd.Wait()
}
