package interp

// strings.NewReplacer / (*strings.Replacer).Replace as intrinsics: the documented contract - replacements are
// performed in the order they appear in the target string, without overlapping matches, the old strings are
// compared in argument order - executed over symbolic bytes by forking on each match.

import (
	"strings"

	"golang.org/x/tools/go/ssa"
)

type replacerVal struct{ oldnew []value }

func init() {
	intrinsics["strings.NewReplacer"] = func(st *pstate, fr *frame, fn *ssa.Function, args []value) value {
		on, _ := args[0].([]value)
		if len(on)%2 == 1 {
			panic(targetPanic{"strings.NewReplacer: odd argument count"})
		}
		var cell value = replacerVal{append([]value{}, on...)}
		return &cell
	}
	intrinsics["(*strings.Replacer).Replace"] = func(st *pstate, fr *frame, fn *ssa.Function, args []value) value {
		p, ok := args[0].(*value)
		if !ok || p == nil {
			panic(unsupported("strings.Replacer not created by NewReplacer"))
		}
		r, ok := (*p).(replacerVal)
		if !ok {
			panic(unsupported("strings.Replacer not created by NewReplacer"))
		}
		conc := true
		for _, x := range append([]value{args[1]}, r.oldnew...) {
			if _, isStr := x.(string); !isStr {
				conc = false
			}
		}
		if conc {
			ss := make([]string, len(r.oldnew))
			for i, x := range r.oldnew {
				ss[i] = x.(string)
			}
			return strings.NewReplacer(ss...).Replace(args[1].(string))
		}
		b := strBytes(args[1])
		var out []value
		for i := 0; i < len(b); {
			matched := false
			for k := 0; k+1 < len(r.oldnew); k += 2 {
				old := strBytes(r.oldnew[k])
				if len(old) == 0 {
					panic(unsupported("strings.Replacer with an empty old string on a symbolic string"))
				}
				if st.branch(matchAt(b, i, old)) {
					out = append(out, strBytes(r.oldnew[k+1])...)
					i += len(old)
					matched = true
					break
				}
			}
			if !matched {
				out = append(out, b[i])
				i++
			}
		}
		return mkStr(out)
	}
}

func init() {
	// three-way string comparison (strings.Compare, cmp.Compare[string] end in an assembly routine)
	cmp3 := func(st *pstate, fr *frame, fn *ssa.Function, args []value) value {
		if a, ok := args[0].(string); ok {
			if b, ok := args[1].(string); ok {
				return strings.Compare(a, b)
			}
		}
		if st.branch(strLtTerm(args[0], args[1])) {
			return -1
		}
		if st.branch(strEqTerm(args[0], args[1])) {
			return 0
		}
		return 1
	}
	intrinsics["strings.Compare"] = cmp3
	intrinsics["internal/bytealg.CompareString"] = cmp3
}
