package interp

// fmt, errors, strings, strings.Builder, slices of std that either use
// reflection/assembly (cannot be interpreted) or are worth summarising.

import (
	"fmt"
	"go/token"
	"go/types"
	"strconv"
	"strings"

	"golang.org/x/tools/go/ssa"
)

// EnumNames maps an enum type's full name to its value->name table; filled by
// the driver from the generated package's source (stub for protobuf's enum
// String()).
var EnumNames = map[string]map[int64]string{}

func (st *pstate) fmtArg(fr *frame, verb byte, arg value) []value {
	itf, ok := arg.(iface)
	if !ok {
		panic(unsupported(fmt.Sprintf("fmt operand %T", arg)))
	}
	if itf.t == nil {
		if verb == 'v' || verb == 's' {
			if verb == 's' {
				return strBytes("%!s(<nil>)")
			}
			return strBytes("<nil>")
		}
		return strBytes("%!" + string(verb) + "(<nil>)")
	}
	v := itf.v
	if verb == 'q' {
		s, ok := v.(string)
		if !ok {
			panic(unsupported("%q of non-concrete-string operand"))
		}
		return strBytes(strconv.Quote(s))
	}
	if verb == 'T' {
		return strBytes(itf.t.String())
	}
	switch x := v.(type) {
	case string:
		if verb == 'd' {
			panic(unsupported("%d of string"))
		}
		return strBytes(x)
	case symStr:
		return x.b
	case symInt:
		panic(unsupported("formatting a symbolic integer"))
	case symBool:
		panic(unsupported("formatting a symbolic bool"))
	}
	// error / Stringer
	if verb == 'v' || verb == 's' || verb == 'w' {
		for _, name := range []string{"Error", "String"} {
			ms := fr.i.prog.MethodSets.MethodSet(itf.t)
			if sel := ms.Lookup(nil, name); sel != nil {
				if sel.Type().(*types.Signature).Params().Len() != 0 {
					continue
				}
				if fn := fr.i.prog.MethodValue(sel); fn != nil {
					r := call(fr.i, fr, token.NoPos, fn, []value{v})
					if isStrVal(r) {
						return strBytes(r)
					}
				}
			}
		}
	}
	switch x := v.(type) {
	case bool:
		return strBytes(strconv.FormatBool(x))
	case int, int8, int16, int32, int64, uint, uint8, uint16, uint32, uint64, uintptr:
		if verb == 's' {
			return strBytes(fmt.Sprintf("%%!s(%s=%v)", itf.t.String(), x))
		}
		if verb == 'c' {
			return strBytes(fmt.Sprintf("%c", x))
		}
		return strBytes(fmt.Sprintf("%d", x))
	case float64, float32:
		return strBytes(fmt.Sprintf("%v", x))
	}
	panic(unsupported(fmt.Sprintf("fmt operand of dynamic type %s (%T)", itf.t, v)))
}

// sprintf supports %v %s %d %q %w %T %c %% without flags.  The format may itself contain symbolic
// bytes (a format string assembled from input, e.g. Sprintf(text+"%s", x)): for each of them the
// solver decides whether it can be a '%'; if it can, that is a path of its own on which the byte
// starts a verb (reported as unsupported unless the verb that follows is concrete).
func (st *pstate) sprintf(fr *frame, formatV value, va []value) (value, int) {
	format := strBytes(formatV)
	isPercent := func(e value) bool {
		switch x := e.(type) {
		case uint8:
			return x == '%'
		case symInt:
			return st.branch("(= " + x.t + " " + bvConst('%', 8) + ")")
		}
		panic(unsupported(fmt.Sprintf("format byte of type %T", e)))
	}
	var out []value
	ai := 0
	wrapped := -1
	for i := 0; i < len(format); i++ {
		c := format[i]
		if !isPercent(c) {
			out = append(out, c)
			continue
		}
		i++
		if i >= len(format) {
			out = append(out, strBytes("%!(NOVERB)")...)
			break
		}
		vb, ok := format[i].(uint8)
		if !ok {
			panic(unsupported("fmt verb given by a symbolic byte"))
		}
		verb := vb
		if verb == '%' {
			out = append(out, uint8('%'))
			continue
		}
		if !strings.ContainsRune("vsdqwTc", rune(verb)) {
			if verb == ' ' || verb == '!' || verb == '=' || verb == ')' || verb == '\n' || verb == '}' {
				// what fmt prints for a verb it does not know (flags are not modelled: a blank is a
				// flag for fmt, the following byte the verb; the text differs from fmt's only inside
				// the %!x(...) complaint, which no specification of the output contains)
				out = append(out, strBytes("%!"+string(verb)+"(BADVERB)")...)
				if ai < len(va) {
					ai++
				}
				continue
			}
			panic(unsupported("fmt verb %" + string(verb)))
		}
		if ai >= len(va) {
			out = append(out, strBytes("%!"+string(verb)+"(MISSING)")...)
			continue
		}
		if verb == 'w' {
			wrapped = ai
		}
		out = append(out, st.fmtArg(fr, verb, va[ai])...)
		ai++
	}
	if ai < len(va) {
		out = append(out, strBytes("%!(EXTRA)")...)
	}
	return mkStr(out), wrapped
}

func init() {
	intrinsics["fmt.Sprintf"] = func(st *pstate, fr *frame, fn *ssa.Function, args []value) value {
		va, _ := args[1].([]value)
		r, _ := st.sprintf(fr, args[0], va)
		return r
	}
	intrinsics["fmt.Errorf"] = func(st *pstate, fr *frame, fn *ssa.Function, args []value) value {
		va, _ := args[1].([]value)
		msg, w := st.sprintf(fr, goStr(args[0]), va)
		if w < 0 {
			errorsPkg := fr.i.prog.ImportedPackage("errors")
			et := errorsPkg.Type("errorString").Object().Type()
			var cell value = structure{msg}
			return iface{t: types.NewPointer(et), v: &cell}
		}
		fmtPkg := fr.i.prog.ImportedPackage("fmt")
		wt := fmtPkg.Type("wrapError").Object().Type()
		var cell value = structure{msg, va[w]}
		return iface{t: types.NewPointer(wt), v: &cell}
	}
	intrinsics["fmt.Sprint"] = func(st *pstate, fr *frame, fn *ssa.Function, args []value) value {
		va, _ := args[0].([]value)
		var out []value
		for _, a := range va {
			out = append(out, st.fmtArg(fr, 'v', a)...)
		}
		return mkStr(out)
	}
	intrinsics["fmt.Println"] = func(st *pstate, fr *frame, fn *ssa.Function, args []value) value {
		return tuple{0, iface{}}
	}
	intrinsics["fmt.Printf"] = intrinsics["fmt.Println"]

	// ---- errors
	unwrap := func(fr *frame, err iface) []iface {
		if err.t == nil {
			return nil
		}
		ms := fr.i.prog.MethodSets.MethodSet(err.t)
		sel := ms.Lookup(nil, "Unwrap")
		if sel == nil {
			return nil
		}
		sig := sel.Type().(*types.Signature)
		if sig.Params().Len() != 0 || sig.Results().Len() != 1 {
			return nil
		}
		f := fr.i.prog.MethodValue(sel)
		if f == nil {
			return nil
		}
		r := call(fr.i, fr, token.NoPos, f, []value{err.v})
		switch x := r.(type) {
		case iface:
			if x.t == nil {
				return nil
			}
			return []iface{x}
		case []value:
			var out []iface
			for _, e := range x {
				if ei, ok := e.(iface); ok && ei.t != nil {
					out = append(out, ei)
				}
			}
			return out
		}
		return nil
	}
	var is func(fr *frame, err, target iface) bool
	is = func(fr *frame, err, target iface) bool {
		if err.t == nil {
			return target.t == nil
		}
		if sameType(err.t, target.t) {
			if types.Comparable(err.t) && !containsSym(err.v) && !containsSym(target.v) && equals(err.t, err.v, target.v) {
				return true
			}
		}
		ms := fr.i.prog.MethodSets.MethodSet(err.t)
		if sel := ms.Lookup(nil, "Is"); sel != nil {
			sig := sel.Type().(*types.Signature)
			if sig.Params().Len() == 1 && sig.Results().Len() == 1 {
				if f := fr.i.prog.MethodValue(sel); f != nil {
					if b, ok := call(fr.i, fr, token.NoPos, f, []value{err.v, target}).(bool); ok && b {
						return true
					}
				}
			}
		}
		for _, u := range unwrap(fr, err) {
			if is(fr, u, target) {
				return true
			}
		}
		return false
	}
	intrinsics["errors.Is"] = func(st *pstate, fr *frame, fn *ssa.Function, args []value) value {
		return is(fr, args[0].(iface), args[1].(iface))
	}
	intrinsics["errors.Unwrap"] = func(st *pstate, fr *frame, fn *ssa.Function, args []value) value {
		us := unwrap(fr, args[0].(iface))
		if len(us) == 1 {
			return us[0]
		}
		return iface{}
	}
	var as func(fr *frame, err iface, tt types.Type, cell *value) bool
	as = func(fr *frame, err iface, tt types.Type, cell *value) bool {
		if err.t == nil {
			return false
		}
		if it, ok := tt.Underlying().(*types.Interface); ok {
			if types.Implements(err.t, it) {
				*cell = err
				return true
			}
		} else if types.Identical(err.t, tt) {
			*cell = err.v
			return true
		}
		for _, u := range unwrap(fr, err) {
			if as(fr, u, tt, cell) {
				return true
			}
		}
		return false
	}
	intrinsics["errors.As"] = func(st *pstate, fr *frame, fn *ssa.Function, args []value) value {
		target := args[1].(iface)
		if target.t == nil {
			panic(targetPanic{iface{t: types.Typ[types.String], v: "errors: target cannot be nil"}})
		}
		pt, ok := target.t.Underlying().(*types.Pointer)
		if !ok {
			panic(targetPanic{iface{t: types.Typ[types.String], v: "errors: target must be a non-nil pointer"}})
		}
		return as(fr, args[0].(iface), pt.Elem(), target.v.(*value))
	}

	// ---- strings.Builder as a byte vector (field 1 = buf)
	intrinsics["(*strings.Builder).Grow"] = func(st *pstate, fr *frame, fn *ssa.Function, args []value) value { return nil }
	bufOf := func(args []value) (structure, []value) {
		p := args[0].(*value)
		s := (*p).(structure)
		buf, _ := s[1].([]value)
		return s, buf
	}
	intrinsics["(*strings.Builder).WriteByte"] = func(st *pstate, fr *frame, fn *ssa.Function, args []value) value {
		s, buf := bufOf(args)
		s[1] = append(buf, args[1])
		return iface{}
	}
	intrinsics["(*strings.Builder).WriteString"] = func(st *pstate, fr *frame, fn *ssa.Function, args []value) value {
		s, buf := bufOf(args)
		b := strBytes(args[1])
		s[1] = append(buf, b...)
		return tuple{len(b), iface{}}
	}
	intrinsics["(*strings.Builder).WriteRune"] = func(st *pstate, fr *frame, fn *ssa.Function, args []value) value {
		s, buf := bufOf(args)
		switch r := args[1].(type) {
		case int32:
			b := strBytes(string(r))
			s[1] = append(buf, b...)
			return tuple{len(b), iface{}}
		case symInt:
			if !st.mustHold("(bvult " + r.t + " #x00000080)") {
				panic(unsupported("WriteRune of symbolic rune that may be non-ASCII"))
			}
			s[1] = append(buf, symInt{st.name("((_ extract 7 0) "+r.t+")", 8), types.Uint8})
			return tuple{1, iface{}}
		}
		panic(unsupported("WriteRune operand"))
	}
	intrinsics["(*strings.Builder).Write"] = func(st *pstate, fr *frame, fn *ssa.Function, args []value) value {
		s, buf := bufOf(args)
		b := args[1].([]value)
		s[1] = append(buf, b...)
		return tuple{len(b), iface{}}
	}
	intrinsics["(*strings.Builder).Len"] = func(st *pstate, fr *frame, fn *ssa.Function, args []value) value {
		_, buf := bufOf(args)
		return len(buf)
	}
	intrinsics["(*strings.Builder).Reset"] = func(st *pstate, fr *frame, fn *ssa.Function, args []value) value {
		s, _ := bufOf(args)
		s[1] = []value(nil)
		return nil
	}
	intrinsics["(*strings.Builder).String"] = func(st *pstate, fr *frame, fn *ssa.Function, args []value) value {
		_, buf := bufOf(args)
		return mkStr(append([]value(nil), buf...))
	}

	// ---- strings (symbolic-aware; concrete arguments use the real functions)
	allConc := func(args []value) bool {
		for _, a := range args {
			switch x := a.(type) {
			case symStr:
				return false
			case []value:
				for _, e := range x {
					if _, ok := e.(symStr); ok {
						return false
					}
				}
			}
		}
		return true
	}
	intrinsics["strings.Contains"] = func(st *pstate, fr *frame, fn *ssa.Function, args []value) value {
		if allConc(args) {
			return strings.Contains(goStr(args[0]), goStr(args[1]))
		}
		return mkBool(st.nameBool(containsTerm(strBytes(args[0]), strBytes(args[1]))))
	}
	intrinsics["strings.HasPrefix"] = func(st *pstate, fr *frame, fn *ssa.Function, args []value) value {
		if allConc(args) {
			return strings.HasPrefix(goStr(args[0]), goStr(args[1]))
		}
		return mkBool(matchAt(strBytes(args[0]), 0, strBytes(args[1])))
	}
	intrinsics["strings.HasSuffix"] = func(st *pstate, fr *frame, fn *ssa.Function, args []value) value {
		if allConc(args) {
			return strings.HasSuffix(goStr(args[0]), goStr(args[1]))
		}
		b, p := strBytes(args[0]), strBytes(args[1])
		return mkBool(matchAt(b, len(b)-len(p), p))
	}
	// index: forks on the position of the first occurrence
	index := func(st *pstate, hay, needle []value) int {
		for i := 0; i+len(needle) <= len(hay); i++ {
			if st.branch(matchAt(hay, i, needle)) {
				return i
			}
		}
		return -1
	}
	lastIndex := func(st *pstate, hay, needle []value) int {
		for i := len(hay) - len(needle); i >= 0; i-- {
			if st.branch(matchAt(hay, i, needle)) {
				return i
			}
		}
		return -1
	}
	intrinsics["strings.Index"] = func(st *pstate, fr *frame, fn *ssa.Function, args []value) value {
		if allConc(args) {
			return strings.Index(goStr(args[0]), goStr(args[1]))
		}
		return index(st, strBytes(args[0]), strBytes(args[1]))
	}
	intrinsics["strings.LastIndex"] = func(st *pstate, fr *frame, fn *ssa.Function, args []value) value {
		if allConc(args) {
			return strings.LastIndex(goStr(args[0]), goStr(args[1]))
		}
		return lastIndex(st, strBytes(args[0]), strBytes(args[1]))
	}
	intrinsics["strings.IndexByte"] = func(st *pstate, fr *frame, fn *ssa.Function, args []value) value {
		if s, ok := args[0].(string); ok {
			if c, ok := args[1].(uint8); ok {
				return strings.IndexByte(s, c)
			}
		}
		return index(st, strBytes(args[0]), []value{args[1]})
	}
	intrinsics["strings.Split"] = func(st *pstate, fr *frame, fn *ssa.Function, args []value) value {
		if allConc(args) {
			parts := strings.Split(goStr(args[0]), goStr(args[1]))
			out := make([]value, len(parts))
			for i, p := range parts {
				out[i] = p
			}
			return out
		}
		hay, sep := strBytes(args[0]), strBytes(args[1])
		if len(sep) == 0 {
			panic(unsupported("strings.Split with empty separator on symbolic string"))
		}
		var out []value
		for {
			i := index(st, hay, sep)
			if i < 0 {
				break
			}
			out = append(out, mkStr(hay[:i:i]))
			hay = hay[i+len(sep):]
		}
		out = append(out, mkStr(hay[:len(hay):len(hay)]))
		return out
	}
	intrinsics["strings.Fields"] = func(st *pstate, fr *frame, fn *ssa.Function, args []value) value {
		if s, ok := args[0].(string); ok {
			parts := strings.Fields(s)
			out := make([]value, len(parts))
			for i, p := range parts {
				out[i] = p
			}
			return out
		}
		// symbolic: split at ASCII white space, forking per byte; a byte >= 0x80 would need rune decoding
		b := strBytes(args[0])
		const sp = "\t\n\v\f\r "
		var out []value
		start := -1
		for i, x := range b {
			if si, ok := x.(symInt); ok {
				if !st.branch("(bvult " + si.t + " #x80)") {
					panic(unsupported("strings.Fields: non-ASCII byte"))
				}
			} else if x.(uint8) >= 0x80 {
				panic(unsupported("strings.Fields: non-ASCII byte"))
			}
			if st.branch(inSetTerm(x, sp)) {
				if start >= 0 {
					out = append(out, mkStr(b[start:i:i]))
					start = -1
				}
			} else if start < 0 {
				start = i
			}
		}
		if start >= 0 {
			out = append(out, mkStr(b[start:len(b):len(b)]))
		}
		return out
	}
	intrinsics["strings.Join"] = func(st *pstate, fr *frame, fn *ssa.Function, args []value) value {
		elems, _ := args[0].([]value)
		sep := strBytes(args[1])
		var out []value
		for i, e := range elems {
			if i > 0 {
				out = append(out, sep...)
			}
			out = append(out, strBytes(e)...)
		}
		return mkStr(out)
	}
	inSet := func(b value, set string) string {
		alts := []string{}
		for i := 0; i < len(set); i++ {
			alts = append(alts, byteEq(b, set[i]))
		}
		return tOr(alts...)
	}
	asciiOnly := func(s string) bool {
		for i := 0; i < len(s); i++ {
			if s[i] >= 0x80 {
				return false
			}
		}
		return true
	}
	trimLeft := func(st *pstate, b []value, set string) []value {
		for len(b) > 0 && st.branch(inSet(b[0], set)) {
			b = b[1:]
		}
		return b
	}
	trimRight := func(st *pstate, b []value, set string) []value {
		for len(b) > 0 && st.branch(inSet(b[len(b)-1], set)) {
			b = b[:len(b)-1]
		}
		return b
	}
	intrinsics["strings.TrimLeft"] = func(st *pstate, fr *frame, fn *ssa.Function, args []value) value {
		if allConc(args) {
			return strings.TrimLeft(goStr(args[0]), goStr(args[1]))
		}
		set := goStr(args[1])
		if !asciiOnly(set) {
			panic(unsupported("TrimLeft with non-ASCII cutset on symbolic string"))
		}
		// a symbolic byte >= 0x80 is never in an ASCII cutset (byte-wise comparison is exact)
		b := trimLeft(st, strBytes(args[0]), set)
		return mkStr(b[:len(b):len(b)])
	}
	intrinsics["strings.TrimRight"] = func(st *pstate, fr *frame, fn *ssa.Function, args []value) value {
		if allConc(args) {
			return strings.TrimRight(goStr(args[0]), goStr(args[1]))
		}
		set := goStr(args[1])
		if !asciiOnly(set) {
			panic(unsupported("TrimRight with non-ASCII cutset on symbolic string"))
		}
		b := trimRight(st, strBytes(args[0]), set)
		return mkStr(b[:len(b):len(b)])
	}
	intrinsics["strings.Trim"] = func(st *pstate, fr *frame, fn *ssa.Function, args []value) value {
		if allConc(args) {
			return strings.Trim(goStr(args[0]), goStr(args[1]))
		}
		set := goStr(args[1])
		if !asciiOnly(set) {
			panic(unsupported("Trim with non-ASCII cutset on symbolic string"))
		}
		b := trimRight(st, trimLeft(st, strBytes(args[0]), set), set)
		return mkStr(b[:len(b):len(b)])
	}
	intrinsics["strings.TrimSpace"] = func(st *pstate, fr *frame, fn *ssa.Function, args []value) value {
		if allConc(args) {
			return strings.TrimSpace(goStr(args[0]))
		}
		const sp = "\t\n\v\f\r "
		b := strBytes(args[0])
		// a byte >= 0x80 at the trim boundary would need rune decoding
		chk := func(x value) {
			if si, ok := x.(symInt); ok {
				if !st.branch("(bvult " + si.t + " #x80)") {
					panic(unsupported("TrimSpace: non-ASCII byte at the trim boundary"))
				}
			} else if x.(uint8) >= 0x80 {
				panic(unsupported("TrimSpace: non-ASCII byte at the trim boundary"))
			}
		}
		for len(b) > 0 {
			chk(b[0])
			if !st.branch(inSet(b[0], sp)) {
				break
			}
			b = b[1:]
		}
		for len(b) > 0 {
			chk(b[len(b)-1])
			if !st.branch(inSet(b[len(b)-1], sp)) {
				break
			}
			b = b[:len(b)-1]
		}
		return mkStr(b[:len(b):len(b)])
	}
	intrinsics["strings.TrimPrefix"] = func(st *pstate, fr *frame, fn *ssa.Function, args []value) value {
		if allConc(args) {
			return strings.TrimPrefix(goStr(args[0]), goStr(args[1]))
		}
		b, p := strBytes(args[0]), strBytes(args[1])
		if st.branch(matchAt(b, 0, p)) {
			return mkStr(b[len(p):len(b):len(b)])
		}
		return args[0]
	}
	intrinsics["strings.TrimSuffix"] = func(st *pstate, fr *frame, fn *ssa.Function, args []value) value {
		if allConc(args) {
			return strings.TrimSuffix(goStr(args[0]), goStr(args[1]))
		}
		b, p := strBytes(args[0]), strBytes(args[1])
		if st.branch(matchAt(b, len(b)-len(p), p)) {
			n := len(b) - len(p)
			return mkStr(b[:n:n])
		}
		return args[0]
	}
	intrinsics["strings.ReplaceAll"] = func(st *pstate, fr *frame, fn *ssa.Function, args []value) value {
		if allConc(args) {
			return strings.ReplaceAll(goStr(args[0]), goStr(args[1]), goStr(args[2]))
		}
		old, nw := goStr(args[1]), goStr(args[2])
		b := strBytes(args[0])
		if len(old) == 1 && len(nw) == 1 {
			out := make([]value, len(b))
			for i, x := range b {
				if sx, ok := x.(symInt); ok {
					out[i] = symInt{st.name(tIte("(= "+sx.t+" "+bvConst(uint64(old[0]), 8)+")", bvConst(uint64(nw[0]), 8), sx.t), 8), types.Uint8}
				} else if x.(uint8) == old[0] {
					out[i] = nw[0]
				} else {
					out[i] = x
				}
			}
			return mkStr(out)
		}
		if len(old) == 0 {
			panic(unsupported("ReplaceAll with empty old on symbolic string"))
		}
		// general case: fork on occurrences, left to right
		var out []value
		ob := strBytes(old)
		for {
			i := index(st, b, ob)
			if i < 0 {
				break
			}
			out = append(out, b[:i]...)
			out = append(out, strBytes(nw)...)
			b = b[i+len(ob):]
		}
		out = append(out, b...)
		return mkStr(out)
	}
	caseMap := func(upper bool) intrinsicFn {
		return func(st *pstate, fr *frame, fn *ssa.Function, args []value) value {
			if s, ok := args[0].(string); ok {
				if upper {
					return strings.ToUpper(s)
				}
				return strings.ToLower(s)
			}
			b := strBytes(args[0])
			out := make([]value, len(b))
			for i, x := range b {
				switch bb := x.(type) {
				case uint8:
					if bb >= 0x80 {
						panic(unsupported("case mapping of non-ASCII byte in symbolic string"))
					}
					if upper {
						out[i] = strings.ToUpper(string(rune(bb)))[0]
					} else {
						out[i] = strings.ToLower(string(rune(bb)))[0]
					}
				case symInt:
					// a byte that may be part of a multi-byte rune: the ASCII case goes on (exact per-byte mapping),
					// the non-ASCII case ends as unsupported (inconclusive for those inputs only)
					if !st.branch("(bvult " + bb.t + " #x80)") {
						panic(unsupported("case mapping of symbolic byte that may be non-ASCII"))
					}
					if upper {
						out[i] = symInt{st.name("(ite (and (bvuge "+bb.t+" #x61) (bvule "+bb.t+" #x7a)) (bvsub "+bb.t+" #x20) "+bb.t+")", 8), types.Uint8}
					} else {
						out[i] = symInt{st.name("(ite (and (bvuge "+bb.t+" #x41) (bvule "+bb.t+" #x5a)) (bvadd "+bb.t+" #x20) "+bb.t+")", 8), types.Uint8}
					}
				}
			}
			return mkStr(out)
		}
	}
	intrinsics["strings.ToUpper"] = caseMap(true)
	intrinsics["strings.ToLower"] = caseMap(false)
	intrinsics["strings.Repeat"] = func(st *pstate, fr *frame, fn *ssa.Function, args []value) value {
		n := goInt(args[1])
		if n < 0 {
			panic(targetPanic{iface{t: types.Typ[types.String], v: "strings: negative Repeat count"}})
		}
		b := strBytes(args[0])
		var out []value
		for i := 0; i < n; i++ {
			out = append(out, b...)
		}
		return mkStr(out)
	}
	intrinsics["strings.Count"] = func(st *pstate, fr *frame, fn *ssa.Function, args []value) value {
		if allConc(args) {
			return strings.Count(goStr(args[0]), goStr(args[1]))
		}
		hay, sep := strBytes(args[0]), strBytes(args[1])
		if len(sep) == 0 {
			panic(unsupported("strings.Count with empty separator"))
		}
		n := 0
		for {
			i := index(st, hay, sep)
			if i < 0 {
				return n
			}
			n++
			hay = hay[i+len(sep):]
		}
	}
	// internal/bytealg primitives used by interpreted std code
	intrinsics["internal/bytealg.IndexByteString"] = func(st *pstate, fr *frame, fn *ssa.Function, args []value) value {
		if s, ok := args[0].(string); ok {
			if c, ok := args[1].(uint8); ok {
				return strings.IndexByte(s, c)
			}
		}
		return index(st, strBytes(args[0]), []value{args[1]})
	}
	intrinsics["internal/bytealg.IndexString"] = func(st *pstate, fr *frame, fn *ssa.Function, args []value) value {
		if allConc(args) {
			return strings.Index(goStr(args[0]), goStr(args[1]))
		}
		return index(st, strBytes(args[0]), strBytes(args[1]))
	}
	intrinsics["internal/bytealg.CountString"] = func(st *pstate, fr *frame, fn *ssa.Function, args []value) value {
		if s, ok := args[0].(string); ok {
			if c, ok := args[1].(uint8); ok {
				return strings.Count(s, string(rune(c)))
			}
		}
		panic(unsupported("bytealg.CountString on symbolic string"))
	}
	intrinsics["internal/stringslite.Index"] = intrinsics["strings.Index"]
	intrinsics["internal/stringslite.HasPrefix"] = intrinsics["strings.HasPrefix"]
	intrinsics["internal/stringslite.HasSuffix"] = intrinsics["strings.HasSuffix"]
	intrinsics["internal/stringslite.IndexByte"] = intrinsics["strings.IndexByte"]
	intrinsics["internal/stringslite.TrimPrefix"] = intrinsics["strings.TrimPrefix"]
	intrinsics["internal/stringslite.TrimSuffix"] = intrinsics["strings.TrimSuffix"]
	intrinsics["strconv.Itoa"] = func(st *pstate, fr *frame, fn *ssa.Function, args []value) value {
		return strconv.Itoa(goInt(args[0]))
	}
	intrinsics["strconv.Quote"] = func(st *pstate, fr *frame, fn *ssa.Function, args []value) value {
		return strconv.Quote(goStr(args[0]))
	}
}

// RegisterEnumStringers installs String() intrinsics for generated enums.
func RegisterEnumStringers() {
	for tname, table := range EnumNames {
		table := table
		tname := tname
		intrinsics["("+tname+").String"] = func(st *pstate, fr *frame, fn *ssa.Function, args []value) value {
			st.useStub("enum String() of " + tname + " = generated _name table")
			var n int64
			switch x := args[0].(type) {
			case int32:
				n = int64(x)
			case int64:
				n = x
			case int:
				n = int64(x)
			case symInt:
				// fork over the table (and the out-of-table remainder)
				keys := make([]int64, 0, len(table))
				for k := range table {
					keys = append(keys, k)
				}
				sortInt64s(keys)
				for _, k := range keys {
					if st.branch("(= " + x.t + " " + bvConst(uint64(k), kindBits(x.k)) + ")") {
						return table[k]
					}
				}
				panic(unsupported("enum String() of out-of-table symbolic value"))
			default:
				panic(unsupported(fmt.Sprintf("enum String() receiver %T", x)))
			}
			if s, ok := table[n]; ok {
				return s
			}
			return strconv.FormatInt(n, 10)
		}
	}
}

func sortInt64s(a []int64) {
	for i := 1; i < len(a); i++ {
		for j := i; j > 0 && a[j] < a[j-1]; j-- {
			a[j], a[j-1] = a[j-1], a[j]
		}
	}
}

func inSetTerm(b value, set string) string {
	alts := []string{}
	for i := 0; i < len(set); i++ {
		alts = append(alts, byteEq(b, set[i]))
	}
	return tOr(alts...)
}

func init() {
	// sort.Slice / sort.SliceStable go through reflectlite (Swapper); here: a stable insertion sort that
	// calls the interpreted less function.  It can differ from Go's pdqsort only in the order of
	// elements that compare equal under less.
	sortSlice := func(st *pstate, fr *frame, fn *ssa.Function, args []value) value {
		var s []value
		switch x := args[0].(type) {
		case iface:
			if x.v == nil {
				return nil
			}
			sl, ok := x.v.([]value)
			if !ok {
				panic(unsupported(fmt.Sprintf("sort.Slice on %T", x.v)))
			}
			s = sl
		default:
			panic(unsupported(fmt.Sprintf("sort.Slice on %T", args[0])))
		}
		less := func(a, b int) bool {
			r := call(fr.i, fr, token.NoPos, args[1], []value{a, b})
			bv, ok := r.(bool)
			if !ok {
				panic(unsupported("sort.Slice with a symbolic comparison"))
			}
			return bv
		}
		for i := 1; i < len(s); i++ {
			for j := i; j > 0 && less(j, j-1); j-- {
				s[j], s[j-1] = s[j-1], s[j]
			}
		}
		return nil
	}
	intrinsics["sort.Slice"] = sortSlice
	intrinsics["sort.SliceStable"] = sortSlice
}
