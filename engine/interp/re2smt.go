package interp

// regexp.MatchString(p, s) on an opaque string: the pattern computed by the
// real code is parsed with Go's own regexp/syntax (the parser regexp.Compile
// uses) and becomes an SMT RegLan term; the result is the atom
// (str.in_re s R).  Characters are Unicode code points, clipped at U+2FFFF
// (z3's character sort).

import (
	"fmt"
	"regexp"
	"regexp/syntax"
	"strings"

	"golang.org/x/tools/go/ssa"
)

const maxChar = 0x2FFFF

func smtChar(r rune) string {
	return fmt.Sprintf("\"\\u{%x}\"", r)
}

func smtRange(lo, hi rune) string {
	if hi > maxChar {
		hi = maxChar
	}
	if lo > hi {
		return "re.none"
	}
	if lo == hi {
		return "(str.to_re " + smtChar(lo) + ")"
	}
	return "(re.range " + smtChar(lo) + " " + smtChar(hi) + ")"
}

func reUnion(ts []string) string {
	var out []string
	for _, t := range ts {
		if t != "re.none" {
			out = append(out, t)
		}
	}
	switch len(out) {
	case 0:
		return "re.none"
	case 1:
		return out[0]
	}
	return "(re.union " + strings.Join(out, " ") + ")"
}

func reConcat(ts []string) string {
	switch len(ts) {
	case 0:
		return "(str.to_re \"\")"
	case 1:
		return ts[0]
	}
	return "(re.++ " + strings.Join(ts, " ") + ")"
}

// hostRegexp stands for a *regexp.Regexp value of the interpreted program.
type hostRegexp struct{ re *regexp.Regexp }

// RegexToSMT translates pattern (search semantics of MatchString) to a RegLan.
func RegexToSMT(pattern string) (string, error) {
	re, err := syntax.Parse(pattern, syntax.Perl)
	if err != nil {
		return "", err
	}
	// peel anchors off a top-level concatenation
	subs := []*syntax.Regexp{re}
	if re.Op == syntax.OpConcat {
		subs = re.Sub
	}
	begin, end := false, false
	if len(subs) > 0 && subs[0].Op == syntax.OpBeginText {
		begin = true
		subs = subs[1:]
	}
	if len(subs) > 0 && subs[len(subs)-1].Op == syntax.OpEndText {
		end = true
		subs = subs[:len(subs)-1]
	}
	var parts []string
	for _, s := range subs {
		t, err := reTerm(s)
		if err != nil {
			return "", err
		}
		parts = append(parts, t)
	}
	body := reConcat(parts)
	if !begin {
		body = "(re.++ re.all " + body + ")"
	}
	if !end {
		body = "(re.++ " + body + " re.all)"
	}
	return body, nil
}

func reTerm(re *syntax.Regexp) (string, error) {
	switch re.Op {
	case syntax.OpNoMatch:
		return "re.none", nil
	case syntax.OpEmptyMatch:
		return "(str.to_re \"\")", nil
	case syntax.OpLiteral:
		if re.Flags&syntax.FoldCase != 0 {
			return "", fmt.Errorf("case-folded literal not supported")
		}
		var sb strings.Builder
		sb.WriteString("(str.to_re \"")
		for _, r := range re.Rune {
			fmt.Fprintf(&sb, "\\u{%x}", r)
		}
		sb.WriteString("\")")
		return sb.String(), nil
	case syntax.OpCharClass:
		var alts []string
		for i := 0; i+1 < len(re.Rune); i += 2 {
			alts = append(alts, smtRange(re.Rune[i], re.Rune[i+1]))
		}
		return reUnion(alts), nil
	case syntax.OpAnyCharNotNL:
		return reUnion([]string{smtRange(0, '\n'-1), smtRange('\n'+1, maxChar)}), nil
	case syntax.OpAnyChar:
		return "re.allchar", nil
	case syntax.OpCapture:
		return reTerm(re.Sub[0])
	case syntax.OpStar, syntax.OpPlus, syntax.OpQuest:
		t, err := reTerm(re.Sub[0])
		if err != nil {
			return "", err
		}
		switch re.Op {
		case syntax.OpStar:
			return "(re.* " + t + ")", nil
		case syntax.OpPlus:
			return "(re.+ " + t + ")", nil
		}
		return "(re.opt " + t + ")", nil
	case syntax.OpRepeat:
		t, err := reTerm(re.Sub[0])
		if err != nil {
			return "", err
		}
		if re.Max < 0 {
			return fmt.Sprintf("(re.++ ((_ re.loop %d %d) %s) (re.* %s))", re.Min, re.Min, t, t), nil
		}
		return fmt.Sprintf("((_ re.loop %d %d) %s)", re.Min, re.Max, t), nil
	case syntax.OpConcat:
		var parts []string
		for _, s := range re.Sub {
			t, err := reTerm(s)
			if err != nil {
				return "", err
			}
			parts = append(parts, t)
		}
		return reConcat(parts), nil
	case syntax.OpAlternate:
		var parts []string
		for _, s := range re.Sub {
			t, err := reTerm(s)
			if err != nil {
				return "", err
			}
			parts = append(parts, t)
		}
		return reUnion(parts), nil
	}
	return "", fmt.Errorf("regexp operator %v not supported (anchors are only allowed at the ends)", re.Op)
}

type LangPath struct {
	Atoms  []string `json:"atoms"`  // path-condition conjuncts
	Result string   `json:"result"` // true | false | term
}

func init() {
	// compiled regular expressions on concrete strings are evaluated by the host's regexp package
	// (gonum's DOT encoder decides with two of them whether an identifier needs quotes)
	intrinsics["regexp.MustCompile"] = func(st *pstate, fr *frame, fn *ssa.Function, args []value) value {
		return hostRegexp{regexp.MustCompile(goStr(args[0]))}
	}
	intrinsics["(*regexp.Regexp).MatchString"] = func(st *pstate, fr *frame, fn *ssa.Function, args []value) value {
		re, ok := args[0].(hostRegexp)
		if !ok {
			panic(unsupported(fmt.Sprintf("(*regexp.Regexp).MatchString on %T", args[0])))
		}
		if s, conc := args[1].(string); conc {
			return re.re.MatchString(s)
		}
		// a compiled expression on an opaque or symbolic string: the same membership atom as regexp.MatchString
		// with the pattern the expression was compiled from
		return matchStringSym(st, re.re.String(), args[1]).(tuple)[0]
	}
	intrinsics["regexp.MatchString"] = func(st *pstate, fr *frame, fn *ssa.Function, args []value) value {
		return matchStringSym(st, goStr(args[0]), args[1])
	}
	intrinsics[zz+"Lang"] = langIntrinsic
}

func matchStringSym(st *pstate, pat string, arg value) value {
	{
		switch s := arg.(type) {
		case string:
			ok, err := regexp.MatchString(pat, s)
			if err != nil {
				panic(unsupported("regexp.MatchString error path: " + err.Error()))
			}
			return tuple{ok, iface{}}
		case opaqueStr:
			r, err := RegexToSMT(pat)
			if err != nil {
				panic(unsupported("regexp translation: " + err.Error()))
			}
			st.ex.mu.Lock()
			if st.ex.res.Patterns == nil {
				st.ex.res.Patterns = map[string]string{}
			}
			st.ex.res.Patterns[pat] = r
			st.ex.mu.Unlock()
			st.useStub("regexp.MatchString(p, s) = (str.in_re s [[p]]) with [[p]] from regexp/syntax (RE2 semantics, code points <= U+2FFFF)")
			return tuple{symBool{"(str.in_re " + s.name + " " + r + ")"}, iface{}}
		case symStr:
			// a string of concrete length with symbolic bytes: the SMT string made of its bytes, each taken
			// as the code point of that value - exact for ASCII strings (the harness restricts the
			// alphabet), for bytes >= 0x80 Go would decode UTF-8 sequences instead
			r, err := RegexToSMT(pat)
			if err != nil {
				panic(unsupported("regexp translation: " + err.Error()))
			}
			var parts []string
			for _, b := range s.b {
				switch x := b.(type) {
				case uint8:
					parts = append(parts, fmt.Sprintf("\"\\u{%x}\"", x))
				case symInt:
					parts = append(parts, "(str.from_code (bv2nat "+x.t+"))")
				default:
					panic(unsupported(fmt.Sprintf("string byte of type %T", b)))
				}
			}
			term := "\"\""
			if len(parts) == 1 {
				term = parts[0]
			} else if len(parts) > 1 {
				term = "(str.++ " + strings.Join(parts, " ") + ")"
			}
			st.useStub("regexp.MatchString(p, s) on a string of symbolic ASCII bytes = (str.in_re <bytes as code points> [[p]])")
			return tuple{symBool{st.nameBool("(str.in_re " + term + " " + r + ")")}, iface{}}
		}
		panic(unsupported(fmt.Sprintf("regexp.MatchString on %T", arg)))
	}
}

func langIntrinsic(st *pstate, fr *frame, fn *ssa.Function, args []value) value {
	{
		name := goStr(args[0])
		lp := LangPath{Result: st.expandDefs(boolTerm(args[1]))}
		for _, a := range st.pc {
			lp.Atoms = append(lp.Atoms, st.expandDefs(a))
		}
		st.ex.mu.Lock()
		if st.ex.res.Langs == nil {
			st.ex.res.Langs = map[string][]LangPath{}
		}
		st.ex.res.Langs[name] = append(st.ex.res.Langs[name], lp)
		st.ex.mu.Unlock()
		return nil
	}
}

// expandDefs replaces solver-side names (n<k>) of boolean terms by their definitions.
func (st *pstate) expandDefs(t string) string {
	if len(st.defs) == 0 {
		return t
	}
	toks := tokenizeSexp(t)
	for i, tk := range toks {
		if d, ok := st.defs[tk]; ok {
			toks[i] = st.expandDefs(d)
		}
	}
	var sb strings.Builder
	for i, tk := range toks {
		if i > 0 && tk != ")" && toks[i-1] != "(" {
			sb.WriteByte(' ')
		}
		sb.WriteString(tk)
	}
	return sb.String()
}
