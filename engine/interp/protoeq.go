package interp

// proto.Equal as an intrinsic: structural equality of generated protobuf messages, walked along the Go
// types of the generated structs (the protobuf runtime itself - protoimpl, reflection - is not executable).
// Semantics kept: same message type; a nil and a non-nil message (field) differ; repeated fields and maps
// compare by content with nil == empty; oneof wrappers must be of the same kind; the bookkeeping fields of the
// generated structs (state, sizeCache, unknownFields) are ignored - unknown fields are assumed absent.

import (
	"go/types"

	"golang.org/x/tools/go/ssa"
)

func init() {
	intrinsics["google.golang.org/protobuf/proto.Equal"] = func(st *pstate, fr *frame, fn *ssa.Function, args []value) value {
		st.useStub("proto.Equal = structural equality of the generated message structs (nil == empty for repeated fields and maps, unknown fields absent)")
		x, ok1 := args[0].(iface)
		y, ok2 := args[1].(iface)
		if !ok1 || !ok2 {
			panic(unsupported("proto.Equal on non-interface operands"))
		}
		if x.t == nil || y.t == nil {
			return x.t == nil && y.t == nil
		}
		if !types.Identical(x.t, y.t) {
			return false
		}
		return mkBool(st.protoEq(x.v, y.v, x.t, true))
	}
}

func (st *pstate) protoEq(a, b value, t types.Type, top bool) string {
	switch u := t.Underlying().(type) {
	case *types.Pointer:
		x, _ := a.(*value)
		y, _ := b.(*value)
		if x == nil || y == nil {
			if x == nil && y == nil {
				return "true"
			}
			return "false"
		}
		if x == y {
			return "true"
		}
		return st.protoEq(*x, *y, u.Elem(), false)
	case *types.Struct:
		x, ok1 := a.(structure)
		y, ok2 := b.(structure)
		if !ok1 || !ok2 || len(x) != len(y) || len(x) != u.NumFields() {
			panic(unsupported("proto.Equal: unexpected struct representation"))
		}
		cs := []string{}
		for i := 0; i < u.NumFields(); i++ {
			f := u.Field(i)
			if !f.Exported() {
				continue
			}
			cs = append(cs, st.protoEq(x[i], y[i], f.Type(), false))
		}
		return tAnd(cs...)
	case *types.Slice:
		x, _ := a.([]value)
		y, _ := b.([]value)
		if len(x) != len(y) {
			return "false"
		}
		cs := []string{}
		for i := range x {
			cs = append(cs, st.protoEq(x[i], y[i], u.Elem(), false))
		}
		return tAnd(cs...)
	case *types.Map:
		x, _ := a.(map[value]value)
		y, _ := b.(map[value]value)
		if len(x) != len(y) {
			return "false"
		}
		cs := []string{}
		for k, xv := range x {
			alts := []string{}
			for k2, yv := range y {
				keq := "false"
				if isStrVal(k) && isStrVal(k2) {
					keq = strEqTerm(k, k2)
				} else if k == k2 {
					keq = "true"
				}
				if keq != "false" {
					alts = append(alts, tAnd(keq, st.protoEq(xv, yv, u.Elem(), false)))
				}
			}
			cs = append(cs, tOr(alts...))
		}
		return tAnd(cs...)
	case *types.Interface:
		x, ok1 := a.(iface)
		y, ok2 := b.(iface)
		if !ok1 || !ok2 {
			if a == nil && b == nil {
				return "true"
			}
			panic(unsupported("proto.Equal: unexpected oneof representation"))
		}
		if x.t == nil || y.t == nil {
			if x.t == nil && y.t == nil {
				return "true"
			}
			return "false"
		}
		if !types.Identical(x.t, y.t) {
			return "false"
		}
		return st.protoEq(x.v, y.v, x.t, false)
	}
	return st.deepEqual(a, b, map[[2]*value]bool{})
}
