package interp

// Intercepts: the zzverif harness API, stubs and small intrinsics.  Every name
// listed here is part of the claim of every check that uses it (evidence lists
// the ones actually hit as stubs_used).

import (
	"fmt"
	"go/token"
	"go/types"
	"math"
	"strings"

	"golang.org/x/tools/go/ssa"
)

type intrinsicFn func(st *pstate, fr *frame, fn *ssa.Function, args []value) value

var intrinsics = map[string]intrinsicFn{}

// names of the original externals that cannot take symbolic arguments
func anySymArg(args []value) bool {
	for _, a := range args {
		if isSym(a) {
			return true
		}
		switch x := a.(type) {
		case []value:
			for _, e := range x {
				if isSym(e) {
					return true
				}
			}
		case iface:
			if isSym(x.v) {
				return true
			}
		}
	}
	return false
}

const zz = "github.com/openfga/language/pkg/go/zzverif."

// skipInWarmup: calls that package initialisers make into machinery that cannot
// be interpreted (protobuf registration, regexp compilation); their results are
// never used by the code under test, and a later use of such a nil result is a
// nil dereference that ends the path.
func skipInWarmup(name string, fn *ssa.Function) bool {
	if fn.Pkg == nil {
		return false
	}
	p := fn.Pkg.Pkg.Path()
	switch {
	case strings.HasPrefix(p, "google.golang.org/protobuf/"):
		return true
	case p == "regexp":
		return true
	case strings.HasPrefix(fn.Name(), "file_") && strings.HasSuffix(fn.Name(), "_init"):
		return true
	case strings.HasPrefix(p, "gonum.org/"):
		return true
	}
	return false
}

func zeroResult(fn *ssa.Function) value {
	res := fn.Signature.Results()
	switch res.Len() {
	case 0:
		return nil
	case 1:
		return zero(res.At(0).Type())
	}
	t := make(tuple, res.Len())
	for i := range t {
		t[i] = zero(res.At(i).Type())
	}
	return t
}

func (st *pstate) intercept(fr *frame, name string, fn *ssa.Function, args []value) (value, bool) {
	if !st.w.warmDone && skipInWarmup(name, fn) {
		if _, host := intrinsics[name]; !host && !(fn.Pkg != nil && strings.HasPrefix(fn.Pkg.Pkg.Path(), "gonum.org/") && fr.i.initAllow[fn.Pkg.Pkg.Path()]) {
			return zeroResult(fn), true
		}
	}
	if to, ok := st.ex.Cfg.Redirects[name]; ok {
		if isHarnessFn(fr.callerFn()) && strings.HasSuffix(fr.callerFn().Name(), "_native") {
			// harness asked for the real thing
		} else if f := st.ex.Pkg.Func(to); f != nil {
			st.ex.mu.Lock()
			st.ex.stubs[name+" -> "+to] = true
			st.ex.mu.Unlock()
			return call(fr.i, fr.caller, token.NoPos, f, args), true
		}
	}
	if in, ok := intrinsics[name]; ok {
		return in(st, fr, fn, args), true
	}
	if ext, ok := externals[name]; ok {
		if fn.Pkg != nil && anySymArg(args) {
			if _, done := builtPkgs.Load(fn.Pkg); !done {
				fn.Pkg.Build() // on-demand SSA construction (awaited, see callSSA)
				builtPkgs.Store(fn.Pkg, true)
			}
		}
		if anySymArg(args) && fn.Blocks != nil {
			return nil, false // interpret the real body symbolically
		}
		if anySymArg(args) {
			panic(unsupported("external " + name + " with symbolic argument"))
		}
		return ext(fr, args), true
	}
	return nil, false
}

func (fr *frame) callerFn() *ssa.Function {
	if fr.caller != nil {
		return fr.caller.fn
	}
	return fr.fn
}

func goStr(v value) string {
	s, ok := v.(string)
	if !ok {
		panic(unsupported(fmt.Sprintf("expected a concrete string, got %T", v)))
	}
	return s
}

func goInt(v value) int {
	switch x := v.(type) {
	case int:
		return x
	case int64:
		return int(x)
	}
	panic(unsupported(fmt.Sprintf("expected a concrete int, got %T", v)))
}

func (st *pstate) useStub(name string) {
	st.ex.mu.Lock()
	st.ex.stubs[name] = true
	st.ex.mu.Unlock()
}

func parseAlphabet(a string) [][2]byte {
	var out [][2]byte
	for i := 0; i < len(a); i++ {
		if i+2 < len(a) && a[i+1] == '-' {
			out = append(out, [2]byte{a[i], a[i+2]})
			i += 2
		} else {
			out = append(out, [2]byte{a[i], a[i]})
		}
	}
	return out
}

func init() {
	intrinsics[zz+"Bool"] = func(st *pstate, fr *frame, fn *ssa.Function, args []value) value {
		tag := goStr(args[0])
		if st.ex.Cfg.Concrete {
			return st.nextConc("bool", tag).B
		}
		v := st.freshVar("Bool")
		st.inputs = append(st.inputs, inputRec{kind: "bool", tag: tag, vars: []string{v}})
		return symBool{v}
	}
	intrinsics[zz+"Int"] = func(st *pstate, fr *frame, fn *ssa.Function, args []value) value {
		tag := goStr(args[0])
		lo, hi := goInt(args[1]), goInt(args[2])
		if st.ex.Cfg.Concrete {
			return int(st.nextConc("int", tag).I)
		}
		v := st.freshVar("(_ BitVec 64)")
		st.inputs = append(st.inputs, inputRec{kind: "int", tag: tag, vars: []string{v}})
		st.assertPC(fmt.Sprintf("(and (bvsle %s %s) (bvsle %s %s))", bvConst(uint64(lo), 64), v, v, bvConst(uint64(hi), 64)))
		return symInt{v, types.Int}
	}
	intrinsics[zz+"Choose"] = func(st *pstate, fr *frame, fn *ssa.Function, args []value) value {
		tag := goStr(args[0])
		n := goInt(args[1])
		if st.ex.Cfg.Concrete {
			return int(st.nextConc("choose", tag).I)
		}
		c := st.choose(n, DChoose, fr, false)
		st.inputs = append(st.inputs, inputRec{kind: "choose", tag: tag, isConc: true, conc: InputVal{Kind: "choose", Tag: tag, I: int64(c)}})
		return c
	}
	intrinsics[zz+"Param"] = func(st *pstate, fr *frame, fn *ssa.Function, args []value) value {
		name := goStr(args[0])
		def := goInt(args[1])
		if v, ok := st.ex.Cfg.Params[name]; ok {
			return v
		}
		return def
	}
	intrinsics[zz+"Str"] = func(st *pstate, fr *frame, fn *ssa.Function, args []value) value {
		tag := goStr(args[0])
		lo, hi := goInt(args[1]), goInt(args[2])
		alpha := goStr(args[3])
		if st.ex.Cfg.Concrete {
			iv := st.nextConc("str", tag)
			b := make([]byte, len(iv.S))
			for i, x := range iv.S {
				b[i] = byte(x)
			}
			return string(b)
		}
		n := lo + st.choose(hi-lo+1, DChoose, fr, false)
		rec := inputRec{kind: "str", tag: tag}
		bs := make([]value, n)
		ranges := parseAlphabet(alpha)
		for i := 0; i < n; i++ {
			v := st.freshVar("(_ BitVec 8)")
			rec.vars = append(rec.vars, v)
			bs[i] = symInt{v, types.Uint8}
			if len(ranges) > 0 {
				alts := []string{}
				for _, r := range ranges {
					if r[0] == r[1] {
						alts = append(alts, "(= "+v+" "+bvConst(uint64(r[0]), 8)+")")
					} else {
						alts = append(alts, "(and (bvule "+bvConst(uint64(r[0]), 8)+" "+v+") (bvule "+v+" "+bvConst(uint64(r[1]), 8)+"))")
					}
				}
				st.assertPC(tOr(alts...))
			}
		}
		st.inputs = append(st.inputs, rec)
		if n == 0 {
			return ""
		}
		return &symS{bs}
	}
	intrinsics[zz+"Opaque"] = func(st *pstate, fr *frame, fn *ssa.Function, args []value) value {
		v := st.freshVar("String")
		st.opaque = append(st.opaque, v)
		return opaqueStr{v}
	}
	intrinsics[zz+"Assume"] = func(st *pstate, fr *frame, fn *ssa.Function, args []value) value {
		switch c := args[0].(type) {
		case bool:
			if !c {
				panic(engineAbort{"assume", ""})
			}
		case symBool:
			t := st.nameBool(c.t)
			if !st.replaying() {
				if st.feasible(t) == "unsat" {
					panic(engineAbort{"assume", ""})
				}
			}
			st.assertPC(t)
		}
		return nil
	}
	intrinsics[zz+"Assert"] = func(st *pstate, fr *frame, fn *ssa.Function, args []value) value {
		label := goStr(args[1])
		site := ""
		if fr.caller != nil {
			site = fr.caller.fn.Name()
		}
		switch c := args[0].(type) {
		case bool:
			st.w.assertsConc++
			if !c && !st.replaying() {
				st.reportAssert(label, site, true)
				panic(engineAbort{"assert-failed", label})
			}
			if !c {
				panic(engineAbort{"assert-failed", label})
			}
		case symBool:
			t := st.nameBool(c.t)
			if !st.replaying() {
				st.w.assertsChk++
				st.sol.send("(push)")
				st.sol.send("(assert " + tNot(t) + ")")
				r := st.sol.check()
				if k := st.ex.Cfg.RecordAsserts; k > 0 {
					st.ex.mu.Lock()
					if len(st.ex.res.AssertScripts) < k {
						st.ex.res.AssertScripts = append(st.ex.res.AssertScripts, AssertScript{Label: label, Verdict: r,
							Script: strings.Join(st.script, "\n") + "\n(assert " + tNot(t) + ")\n(check-sat)\n"})
					}
					st.ex.mu.Unlock()
				}
				if r == "sat" {
					st.reportAssert(label, site, false)
				} else if r == "unknown" {
					st.ex.mu.Lock()
					st.ex.res.Inconcl["assert-unknown: "+label]++
					st.ex.mu.Unlock()
				}
				st.sol.send("(pop)")
				if r == "sat" {
					if st.feasible(t) == "unsat" {
						panic(engineAbort{"assert-failed", label})
					}
				}
			}
			st.assertPC(t)
		default:
			panic(unsupported(fmt.Sprintf("Assert on %T", c)))
		}
		return nil
	}
	intrinsics[zz+"Class"] = func(st *pstate, fr *frame, fn *ssa.Function, args []value) value {
		st.classes[goStr(args[0])] = goStr(args[1])
		return nil
	}
	intrinsics[zz+"Reach"] = func(st *pstate, fr *frame, fn *ssa.Function, args []value) value {
		if !st.replaying() {
			st.reachLabel(goStr(args[0]))
		}
		return nil
	}
	intrinsics[zz+"Observe"] = func(st *pstate, fr *frame, fn *ssa.Function, args []value) value {
		g, d := goStr(args[0]), goStr(args[1])
		key := g + "|" + st.inputKey()
		st.ex.mu.Lock()
		m := st.ex.res.Observed[key]
		if m == nil {
			m = map[string]int{}
			st.ex.res.Observed[key] = m
		}
		m[d]++
		st.noteObservedWitness(key, 1)
		st.ex.mu.Unlock()
		return nil
	}
	intrinsics[zz+"Freeze"] = func(st *pstate, fr *frame, fn *ssa.Function, args []value) value {
		st.freeze(goStr(args[0]), args[1])
		return nil
	}
	intrinsics[zz+"Stub"] = func(st *pstate, fr *frame, fn *ssa.Function, args []value) value {
		st.useStub(goStr(args[0]))
		return nil
	}
	intrinsics[zz+"Symbolic"] = func(st *pstate, fr *frame, fn *ssa.Function, args []value) value {
		return !st.ex.Cfg.Concrete
	}
	intrinsics[zz+"Equal"] = func(st *pstate, fr *frame, fn *ssa.Function, args []value) value {
		return mkBool(st.deepEqual(args[0], args[1], map[[2]*value]bool{}))
	}
	intrinsics[zz+"Log"] = func(st *pstate, fr *frame, fn *ssa.Function, args []value) value {
		return nil
	}

	// ---- math
	intrinsics["math.Max"] = func(st *pstate, fr *frame, fn *ssa.Function, args []value) value {
		fx, xs := args[0].(symF)
		fy, ys := args[1].(symF)
		if !xs && !ys {
			return math.Max(args[0].(float64), args[1].(float64))
		}
		st.useStub("math.Max on int-valued floats = ite(a>=b,a,b)")
		conv := func(v value) string {
			f := v.(float64)
			if f != math.Trunc(f) || math.Abs(f) > 1<<52 {
				panic(unsupported("math.Max: non-integral concrete operand next to symbolic one"))
			}
			return bvConst(uint64(int64(f)), 64)
		}
		var a, b string
		if xs {
			a = fx.t
		} else {
			a = conv(args[0])
		}
		if ys {
			b = fy.t
		} else {
			b = conv(args[1])
		}
		// exactness of int->float64->int needs |v| < 2^53: checked on the path
		for _, t := range []string{a, b} {
			if strings.HasPrefix(t, "#x") {
				continue
			}
			if !st.mustHold("(and (bvslt " + t + " #x0020000000000000) (bvsgt " + t + " #xffe0000000000000))") {
				panic(unsupported("math.Max: symbolic int operand may exceed 2^53"))
			}
		}
		return symF{st.name("(ite (bvsge "+a+" "+b+") "+a+" "+b+")", 64)}
	}

	// ---- ulid
	intrinsics["github.com/oklog/ulid/v2.Make"] = func(st *pstate, fr *frame, fn *ssa.Function, args []value) value {
		st.useStub("ulid.Make = fresh distinct id")
		st.ulid++
		n := st.ulid
		if st.ulidDesc {
			n = 60000 - st.ulid
		}
		a := make(array, 16)
		for i := range a {
			a[i] = byte(0)
		}
		a[15] = byte(n)
		a[14] = byte(n >> 8)
		return a
	}
	// UlidOrder(1): the ids handed out by ulid.Make descend instead of ascend (a random ULID has no order
	// relation to the previous one: code whose output depends on their order is unstable)
	intrinsics[zz+"UlidOrder"] = func(st *pstate, fr *frame, fn *ssa.Function, args []value) value {
		// a schedule decision (not part of the input): both orders belong to the same model
		if st.ex.Cfg.Concrete {
			return nil
		}
		st.ulidDesc = st.choose(2, DSchedule, fr, false) == 1
		return nil
	}
	intrinsics["(github.com/oklog/ulid/v2.ULID).String"] = func(st *pstate, fr *frame, fn *ssa.Function, args []value) value {
		a := args[0].(array)
		plain := true
		for i := 0; i < 14; i++ {
			if b, ok := a[i].(byte); !ok || b != 0 {
				plain = false
			}
		}
		if plain {
			return fmt.Sprintf("01VERIF0000000000000%03d%03d", a[14].(byte), a[15].(byte))
		}
		// an id built by interpreted code (ulid.New with an entropy source of the code under test): all 16 bytes
		out := "01V"
		for i := range a {
			b, ok := a[i].(byte)
			if !ok {
				panic(unsupported("ULID with symbolic bytes"))
			}
			out += fmt.Sprintf("%02X", b)
		}
		return out
	}
	// the clock: a fixed instant (environment stub; the code under test may read it, e.g. to seed something)
	intrinsics["time.Now"] = func(st *pstate, fr *frame, fn *ssa.Function, args []value) value {
		st.useStub("time.Now = a fixed instant")
		t, ok := zero(fn.Signature.Results().At(0).Type()).(structure)
		if !ok || len(t) != 3 {
			panic(unsupported("time.Time layout"))
		}
		t[0] = uint64(0)
		t[1] = int64(63900000000) // seconds since year 1 (2025)
		return t
	}

	// ---- sync
	intrinsics["(*sync.Once).Do"] = func(st *pstate, fr *frame, fn *ssa.Function, args []value) value {
		p := args[0].(*value)
		if st.w.onceWarm[p] || st.w.oncePath[p] {
			return nil
		}
		st.w.oncePath[p] = true
		call(fr.i, fr, token.NoPos, args[1], nil)
		return nil
	}
	for _, n := range []string{"(*sync.Mutex).Lock", "(*sync.Mutex).Unlock", "(*sync.RWMutex).Lock", "(*sync.RWMutex).Unlock", "(*sync.RWMutex).RLock", "(*sync.RWMutex).RUnlock"} {
		intrinsics[n] = func(st *pstate, fr *frame, fn *ssa.Function, args []value) value { return nil }
	}
}

func (st *pstate) nextConc(kind, tag string) InputVal {
	w := st.ex.Cfg.Witness
	if w == nil || st.concIdx >= len(w.Inputs) {
		panic(engineAbort{"unsupported", "concrete witness exhausted at " + kind + " " + tag})
	}
	iv := w.Inputs[st.concIdx]
	st.concIdx++
	if iv.Kind != kind {
		panic(engineAbort{"unsupported", fmt.Sprintf("concrete witness kind mismatch: have %s want %s (%s)", iv.Kind, kind, tag)})
	}
	return iv
}

func (st *pstate) reportAssert(label, site string, concrete bool) {
	if concrete {
		// model of the path condition
		if st.sol.check() != "sat" {
			st.ex.mu.Lock()
			st.ex.res.Inconcl["assert-witness-unknown: "+label]++
			st.ex.mu.Unlock()
			return
		}
	}
	st.report("assert", label, site, "assertion "+label+" can fail", true)
}

// deepEqual: structural equality through pointers, slices, maps; symbolic
// leaves contribute formulas.
func (st *pstate) deepEqual(a, b value, seen map[[2]*value]bool) string {
	switch x := a.(type) {
	case *value:
		y, ok := b.(*value)
		if !ok {
			return "false"
		}
		if x == nil || y == nil {
			if x == nil && y == nil {
				return "true"
			}
			return "false"
		}
		if x == y {
			return "true"
		}
		k := [2]*value{x, y}
		if seen[k] {
			return "true"
		}
		seen[k] = true
		return st.deepEqual(*x, *y, seen)
	case structure:
		y, ok := b.(structure)
		if !ok || len(x) != len(y) {
			return "false"
		}
		cs := []string{}
		for i := range x {
			cs = append(cs, st.deepEqual(x[i], y[i], seen))
		}
		return tAnd(cs...)
	case array:
		y, ok := b.(array)
		if !ok || len(x) != len(y) {
			return "false"
		}
		cs := []string{}
		for i := range x {
			cs = append(cs, st.deepEqual(x[i], y[i], seen))
		}
		return tAnd(cs...)
	case []value:
		y, ok := b.([]value)
		if !ok || len(x) != len(y) {
			return "false"
		}
		cs := []string{}
		for i := range x {
			cs = append(cs, st.deepEqual(x[i], y[i], seen))
		}
		return tAnd(cs...)
	case iface:
		y, ok := b.(iface)
		if !ok {
			return "false"
		}
		if x.t == nil || y.t == nil {
			if x.t == nil && y.t == nil {
				return "true"
			}
			return "false"
		}
		if !types.Identical(x.t, y.t) {
			return "false"
		}
		return st.deepEqual(x.v, y.v, seen)
	case map[value]value:
		y, ok := b.(map[value]value)
		if !ok {
			return "false"
		}
		if len(x) != len(y) {
			return "false"
		}
		// keys: concrete keys must match exactly; symbolic keys are matched by
		// position in insertion order after resolving against the other map
		cs := []string{}
		for k, xv := range x {
			if _, ksym := k.(symStr); ksym {
				// find by formula: some key in y equal to k with equal value
				alts := []string{}
				for k2, yv := range y {
					if isStrVal(k2) {
						alts = append(alts, tAnd(strEqTerm(k, k2), st.deepEqual(xv, yv, seen)))
					}
				}
				cs = append(cs, tOr(alts...))
				continue
			}
			yv, ok := y[k]
			if !ok {
				// maybe a symbolic key of y equals k
				if isStrVal(k) {
					alts := []string{}
					for k2, yv2 := range y {
						if _, s2 := k2.(symStr); s2 {
							alts = append(alts, tAnd(strEqTerm(k, k2), st.deepEqual(xv, yv2, seen)))
						}
					}
					cs = append(cs, tOr(alts...))
					continue
				}
				return "false"
			}
			cs = append(cs, st.deepEqual(xv, yv, seen))
		}
		return tAnd(cs...)
	}
	if isStrVal(a) && isStrVal(b) {
		return strEqTerm(a, b)
	}
	if isSym(a) || isSym(b) {
		return symEqualsTerm(st, nil, a, b)
	}
	switch a.(type) {
	case *ssa.Function, *closure, *ssa.Builtin:
		return "true"
	}
	if a == nil || b == nil {
		if a == nil && b == nil {
			return "true"
		}
		return "false"
	}
	defer func() {
		if r := recover(); r != nil {
			panic(unsupported(fmt.Sprintf("deepEqual %T %T: %v", a, b, r)))
		}
	}()
	if a == b {
		return "true"
	}
	return "false"
}

func init() {
	intrinsics[zz+"And"] = func(st *pstate, fr *frame, fn *ssa.Function, args []value) value {
		return mkBool(st.nameBool(tAnd(boolTerm(args[0]), boolTerm(args[1]))))
	}
	intrinsics[zz+"Or"] = func(st *pstate, fr *frame, fn *ssa.Function, args []value) value {
		return mkBool(st.nameBool(tOr(boolTerm(args[0]), boolTerm(args[1]))))
	}
	intrinsics[zz+"Not"] = func(st *pstate, fr *frame, fn *ssa.Function, args []value) value {
		return mkBool(tNot(boolTerm(args[0])))
	}
	intrinsics[zz+"Implies"] = func(st *pstate, fr *frame, fn *ssa.Function, args []value) value {
		return mkBool(st.nameBool(tOr(tNot(boolTerm(args[0])), boolTerm(args[1]))))
	}
	// Budget(label, steps): the code up to BudgetEnd() may execute at most `steps` SSA instructions on any
	// path; exceeding it is a violation of assertion `label` (the path ends there - no need to run an
	// exponential computation to completion).
	intrinsics[zz+"Budget"] = func(st *pstate, fr *frame, fn *ssa.Function, args []value) value {
		st.budgetLabel = goStr(args[0])
		st.budget = st.steps + goInt(args[1])
		st.budgetStart = st.steps
		st.budgetSite = ""
		if fr.caller != nil {
			st.budgetSite = fr.caller.fn.Name()
		}
		return nil
	}
	intrinsics[zz+"BudgetEnd"] = func(st *pstate, fr *frame, fn *ssa.Function, args []value) value {
		st.budget = 0
		return st.steps - st.budgetStart
	}
	// Work(f): run f, return the SSA instructions it executed
	intrinsics[zz+"Work"] = func(st *pstate, fr *frame, fn *ssa.Function, args []value) value {
		before := st.steps
		call(fr.i, fr, token.NoPos, args[0], nil)
		return st.steps - before + 1
	}
	intrinsics[zz+"Failed"] = func(st *pstate, fr *frame, fn *ssa.Function, args []value) value { return false }
	intrinsics[zz+"Skip"] = func(st *pstate, fr *frame, fn *ssa.Function, args []value) value { return nil }
	intrinsics[zz+"FreezeNative"] = func(st *pstate, fr *frame, fn *ssa.Function, args []value) value { return nil }
}

func init() {
	intrinsics[zz+"MaxInt"] = func(st *pstate, fr *frame, fn *ssa.Function, args []value) value {
		_, as := args[0].(symInt)
		_, bs := args[1].(symInt)
		if !as && !bs {
			a, b := args[0].(int), args[1].(int)
			if a > b {
				return a
			}
			return b
		}
		a, b := intTerm(args[0]), intTerm(args[1])
		return symInt{st.name("(ite (bvsge "+a+" "+b+") "+a+" "+b+")", 64), types.Int}
	}
	intrinsics[zz+"IteInt"] = func(st *pstate, fr *frame, fn *ssa.Function, args []value) value {
		if c, ok := args[0].(bool); ok {
			if c {
				return args[1]
			}
			return args[2]
		}
		if !isSym(args[1]) && !isSym(args[2]) && args[1] == args[2] {
			return args[1]
		}
		return symInt{st.name(tIte(boolTerm(args[0]), intTerm(args[1]), intTerm(args[2])), 64), types.Int}
	}
}

// ---- ObserveGlobal, and sync.Map on package-level variables (C13: a result
// must not depend on earlier calls; a cache in a package-level sync.Map is the
// usual way to make it do so)

type syncMapState struct {
	keys []value
	vals []value
}

func (st *pstate) syncMap(p *value) *syncMapState {
	if st.syncMaps == nil {
		st.syncMaps = map[*value]*syncMapState{}
	}
	m := st.syncMaps[p]
	if m == nil {
		m = &syncMapState{}
		st.syncMaps[p] = m
	}
	return m
}

func (st *pstate) noteGlobalReceiver(fr *frame, p *value, what string) {
	for g, cell := range fr.i.globals {
		if cell == p && g.Pkg != nil && strings.HasPrefix(g.Pkg.Pkg.Path(), st.ex.Cfg.RepoPrefix) {
			site := ""
			if fr.caller != nil {
				site = fr.caller.fn.String()
			}
			st.report("global-store", "global-store:"+g.String(), site, what+" on package-level variable "+g.String(), true)
		}
	}
}

func (m *syncMapState) find(k value) int {
	ki, ok := k.(iface)
	if !ok || ki.t == nil || containsSym(ki.v) {
		return -1
	}
	for i, e := range m.keys {
		ei, ok := e.(iface)
		if ok && ei.t != nil && types.Identical(ei.t, ki.t) && !containsSym(ei.v) && equals(ei.t, ei.v, ki.v) {
			return i
		}
	}
	return -1
}

func init() {
	intrinsics[zz+"ObserveGlobal"] = func(st *pstate, fr *frame, fn *ssa.Function, args []value) value {
		g, d := goStr(args[0]), goStr(args[1])
		st.ex.mu.Lock()
		m := st.ex.res.Observed["global:"+g]
		if m == nil {
			m = map[string]int{}
			st.ex.res.Observed["global:"+g] = m
		}
		m[d]++
		st.noteObservedWitness("global:"+g, 6)
		st.ex.mu.Unlock()
		return nil
	}
	intrinsics["(*sync.Map).Store"] = func(st *pstate, fr *frame, fn *ssa.Function, args []value) value {
		p := args[0].(*value)
		st.noteGlobalReceiver(fr, p, "sync.Map.Store")
		m := st.syncMap(p)
		if i := m.find(args[1]); i >= 0 {
			m.vals[i] = args[2]
		} else {
			m.keys = append(m.keys, args[1])
			m.vals = append(m.vals, args[2])
		}
		return nil
	}
	intrinsics["(*sync.Map).Load"] = func(st *pstate, fr *frame, fn *ssa.Function, args []value) value {
		m := st.syncMap(args[0].(*value))
		if i := m.find(args[1]); i >= 0 {
			return tuple{m.vals[i], true}
		}
		return tuple{iface{}, false}
	}
	intrinsics["(*sync.Map).LoadOrStore"] = func(st *pstate, fr *frame, fn *ssa.Function, args []value) value {
		p := args[0].(*value)
		m := st.syncMap(p)
		if i := m.find(args[1]); i >= 0 {
			return tuple{m.vals[i], true}
		}
		st.noteGlobalReceiver(fr, p, "sync.Map.LoadOrStore")
		m.keys = append(m.keys, args[1])
		m.vals = append(m.vals, args[2])
		return tuple{args[2], false}
	}
	intrinsics["(*sync.Map).Delete"] = func(st *pstate, fr *frame, fn *ssa.Function, args []value) value {
		p := args[0].(*value)
		st.noteGlobalReceiver(fr, p, "sync.Map.Delete")
		m := st.syncMap(p)
		if i := m.find(args[1]); i >= 0 {
			m.keys = append(m.keys[:i], m.keys[i+1:]...)
			m.vals = append(m.vals[:i], m.vals[i+1:]...)
		}
		return nil
	}
}

// noteObservedWitness (caller holds ex.mu): keeps up to max concrete-input
// witnesses per observation group, one per distinct input.
func (st *pstate) noteObservedWitness(key string, max int) {
	r := st.ex.res
	if r.ObservedWitness == nil {
		r.ObservedWitness = map[string][]*Witness{}
	}
	ws := r.ObservedWitness[key]
	if len(ws) >= max {
		return
	}
	w := st.concreteWitness()
	if w == nil {
		return
	}
	sig := fmt.Sprint(w.Inputs)
	for _, o := range ws {
		if fmt.Sprint(o.Inputs) == sig {
			return
		}
	}
	r.ObservedWitness[key] = append(ws, w)
}
