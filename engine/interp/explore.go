package interp

// Exploration by re-execution: a path is identified by its decision log and is
// re-run from the start (after a per-worker warm-up); DFS over prefixes.

import (
	"crypto/sha256"
	"encoding/hex"
	"fmt"
	"go/token"
	"go/types"
	"io"
	"os"
	"runtime"
	"sort"
	"strings"
	"sync"
	"time"

	"golang.org/x/tools/go/ssa"
)

// Decision kinds.
const (
	DBranch   = 'b' // symbolic branch (input)
	DChoose   = 'c' // zzverif.Choose / Str length (input)
	DSchedule = 's' // map iteration order (schedule)
)

type Decision struct {
	Kind byte
	Val  int
}

type engineAbort struct {
	kind string // infeasible | assume | pruned | unsupported | unwind | solver-died | budget
	msg  string
}

func unsupported(msg string) engineAbort { return engineAbort{"unsupported", msg} }

// targetRT is a Go run-time panic of the interpreted program raised by the
// engine itself (recoverable by the target's recover()).
type targetRT struct{ msg string }

func runtimeErr(msg string) targetRT { return targetRT{msg} }

// Config describes one exploration.
type Config struct {
	Harness      string            // function name in package Pkg
	Workers      int               // goroutines
	SolverBin    string            // default z3-new
	TimeoutMs    int               // per query
	MaxPaths     int               // 0 = unlimited
	MaxSteps     int               // per path instruction budget
	MaxDepth     int               // call depth
	Deadline     time.Duration     // wall clock budget (0 = none)
	Sched        string            // all | rot | first   (policy for schedule sites)
	SchedFuncs   []string          // function-name substrings whose map ranges are schedule sites under Sched; others use SchedOther
	SchedScope   []string          // if set: schedule sites only while a function whose name contains one of these is on the stack
	SchedDeps    []string          // function-name substrings in dependencies whose map ranges are schedule sites as well
	SchedOther   string            // policy for remaining repo sites (default first)
	Prune        bool              // state-hash pruning at schedule choice points
	Params       map[string]int    // harness parameters (zzverif.Param)
	Redirects    map[string]string // callee full name -> harness function name
	InitAllow    []string          // package paths whose init may run in warm-up
	Warmup       string            // optional warm-up function
	Transcript   string            // optional file for SMT transcript (worker 0)
	RepoPrefix   string            // import path prefix of the code under test
	MaxViolation int               // stop collecting after this many distinct violations
	Concrete     bool              // selftest mode: zzverif inputs come from a witness
	Witness      *Witness          // for Concrete
	MapOrder     string            // base order of map iteration: sorted | reverse
	NoSkipGuard  bool              // disable the skip-guard schedule reduction
	SampleWitnesses int            // produce witnesses for up to this many completed paths (native validation of stubs)
	RecordAsserts int              // keep the full SMT-LIB script of up to this many assertion queries (cross-solver diff)
}

type InputVal struct {
	Kind string `json:"kind"` // bool|int|choose|str|param
	Tag  string `json:"tag"`
	B    bool   `json:"b,omitempty"`
	I    int64  `json:"i,omitempty"`
	S    []int  `json:"s,omitempty"` // bytes
}

type Witness struct {
	Harness  string     `json:"harness"`
	Inputs   []InputVal `json:"inputs"`
	Schedule []int      `json:"schedule,omitempty"`
	Params   map[string]int `json:"params,omitempty"`
}

type Violation struct {
	Harness string   `json:"harness"`
	Label   string   `json:"label"`
	Class   string   `json:"class"`
	Kind    string   `json:"kind"` // assert | panic | frozen | global-store
	Detail  string   `json:"detail"`
	Site    string   `json:"site"`
	Witness *Witness `json:"witness"`
	InputKey string  `json:"input_key"`
	Count   int      `json:"count"`
}

type ReachRec struct {
	Count   int      `json:"count"`
	Witness *Witness `json:"witness"`
}

type Result struct {
	Harness     string                    `json:"harness"`
	Paths       int                       `json:"paths"`
	Ends        map[string]int            `json:"ends"`
	Decisions   int                       `json:"decisions"`
	InputDec    int                       `json:"input_decisions"`
	SchedDec    int                       `json:"schedule_decisions"`
	Pruned      int                       `json:"pruned"`
	Violations  []*Violation              `json:"violations"`
	Reach       map[string]*ReachRec      `json:"reach"`
	Observed    map[string]map[string]int `json:"observed"` // group -> digest -> count
	Inconcl     map[string]int            `json:"inconclusive"`
	InconclEx   map[string]string         `json:"inconclusive_examples"`
	SolverCalls int                       `json:"solver_calls"`
	SolverSat   int                       `json:"solver_sat"`
	SolverUnsat int                       `json:"solver_unsat"`
	SolverUnk   int                       `json:"solver_unknown"`
	SolverErr   int                       `json:"solver_errors"`
	SolverSec   float64                   `json:"solver_s"`
	AssertsChk  int                       `json:"asserts_checked"`
	AssertsConc int                       `json:"asserts_concrete"`
	WallSec     float64                   `json:"wall_s"`
	Exhaustive  bool                      `json:"exhaustive"`
	Funcs       map[string]int            `json:"functions"` // executed functions -> instructions
	MaxSteps    int                       `json:"max_steps_seen"`
	MaxDepth    int                       `json:"max_depth_seen"`
	Samples     []string                  `json:"samples"`
	Stubs       []string                  `json:"stubs_used"`
	Notes       []string                  `json:"notes"`
	Patterns    map[string]string         `json:"patterns,omitempty"` // regexp pattern -> RegLan
	Langs       map[string][]LangPath     `json:"langs,omitempty"`
	PathWitnesses []*Witness              `json:"path_witnesses,omitempty"`
	AssertScripts []AssertScript          `json:"assert_scripts,omitempty"`
	ObservedWitness map[string][]*Witness `json:"observed_witness,omitempty"` // group -> concrete-input witnesses (native confirmation of digest differences)
}

type AssertScript struct {
	Label   string `json:"label"`
	Verdict string `json:"verdict"`
	Script  string `json:"script"`
}

type seenShard struct {
	mu sync.Mutex
	m  map[[32]byte]bool
}

type Explorer struct {
	Prog *ssa.Program
	Pkg  *ssa.Package
	Cfg  Config

	mu      sync.Mutex
	work    [][]Decision
	active  int
	res     *Result
	seen    [64]seenShard
	vioKeys map[string]*Violation
	stubs   map[string]bool
	start   time.Time
	stop    bool
	cond    *sync.Cond
}

// pstate is the per-path state.
type pstate struct {
	ex     *Explorer
	w      *worker
	sol    *solver
	prefix []Decision
	log    []Decision
	pcHash [32]byte
	pc     []string
	defs   map[string]string
	inputs []inputRec
	nvars  int
	nnames int
	steps  int
	budget int    // zzverif.Budget: step count at which the stated work bound is exceeded (0 = none)
	budgetLabel string
	budgetStart int
	budgetSite  string
	depth  int
	symIDs map[*symS]int
	ulid   int
	ulidDesc bool
	frozen map[*value]string
	frozenMaps map[uintptr]string
	classes map[string]string
	panicSite string
	panicStack string
	concIdx int
	opaque  []string
	ended   bool
	syncMaps map[*value]*syncMapState
	script  []string // declarations, definitions and assertions of this path (for RecordAsserts)
}

type inputRec struct {
	kind string
	tag  string
	vars []string // solver constant names (bytes for str)
	conc InputVal // for choose / param (concrete)
	isConc bool
}

type worker struct {
	id    int
	ex    *Explorer
	i     *interpreter
	sol   *solver
	funcs map[*ssa.Function]int
	onceWarm map[*value]bool
	oncePath map[*value]bool
	warmDone bool
	resetPkgs []*ssa.Package
	pathOrd  map[uintptr]*mapOrd
	warmOrd  map[uintptr]*mapOrd
	assertsConc, assertsChk int
	globalCells map[*value]string // cells inside package-level variables of the code under test (incl. struct fields)
}

func (ex *Explorer) Run() *Result {
	cfg := &ex.Cfg
	if cfg.Workers <= 0 {
		cfg.Workers = 1
	}
	if cfg.SolverBin == "" {
		cfg.SolverBin = "z3-new"
	}
	if cfg.TimeoutMs == 0 {
		cfg.TimeoutMs = 10000
	}
	if cfg.MaxSteps == 0 {
		cfg.MaxSteps = 20_000_000
	}
	if cfg.MaxDepth == 0 {
		cfg.MaxDepth = 400
	}
	if cfg.Sched == "" {
		cfg.Sched = "first"
	}
	if cfg.SchedOther == "" {
		cfg.SchedOther = "first"
	}
	if cfg.MaxViolation == 0 {
		cfg.MaxViolation = 200
	}
	ex.res = &Result{Harness: cfg.Harness, Ends: map[string]int{}, Reach: map[string]*ReachRec{}, Observed: map[string]map[string]int{},
		Inconcl: map[string]int{}, InconclEx: map[string]string{}, Funcs: map[string]int{}}
	for i := range ex.seen {
		ex.seen[i].m = map[[32]byte]bool{}
	}
	ex.vioKeys = map[string]*Violation{}
	ex.stubs = map[string]bool{}
	ex.work = [][]Decision{{}}
	ex.start = time.Now()
	ex.cond = sync.NewCond(&ex.mu)
	if ex.Pkg.Func(cfg.Harness) == nil {
		ex.res.Notes = append(ex.res.Notes, "no such harness function "+cfg.Harness)
		ex.res.Inconcl["no-harness"]++
		return ex.res
	}
	var wg sync.WaitGroup
	workers := make([]*worker, cfg.Workers)
	for k := 0; k < cfg.Workers; k++ {
		w := &worker{id: k, ex: ex, funcs: map[*ssa.Function]int{}}
		workers[k] = w
		wg.Add(1)
		go func() {
			defer wg.Done()
			w.loop()
		}()
	}
	wg.Wait()
	r := ex.res
	for _, w := range workers {
		if w.sol != nil {
			r.SolverCalls += w.sol.calls
			r.SolverSat += w.sol.sat
			r.SolverUnsat += w.sol.unsat
			r.SolverUnk += w.sol.unknown
			r.SolverErr += w.sol.errors
			r.SolverSec += w.sol.dur.Seconds()
			w.sol.close()
		}
		for f, n := range w.funcs {
			r.Funcs[f.String()] += n
		}
		r.AssertsConc += w.assertsConc
		r.AssertsChk += w.assertsChk
	}
	r.WallSec = time.Since(ex.start).Seconds()
	incon := 0
	for _, n := range r.Inconcl {
		incon += n
	}
	r.Exhaustive = len(ex.work) == 0 && !ex.stop && incon == 0 && r.SolverUnk == 0 && r.SolverErr == 0
	for s := range ex.stubs {
		r.Stubs = append(r.Stubs, s)
	}
	sort.Strings(r.Stubs)
	for _, v := range ex.vioKeys {
		r.Violations = append(r.Violations, v)
	}
	sort.Slice(r.Violations, func(i, j int) bool {
		a, b := r.Violations[i], r.Violations[j]
		if a.Label != b.Label {
			return a.Label < b.Label
		}
		if a.Class != b.Class {
			return a.Class < b.Class
		}
		return a.InputKey < b.InputKey
	})
	return r
}

func (w *worker) loop() {
	ex := w.ex
	var tr io.Writer
	if w.id == 0 && ex.Cfg.Transcript != "" {
		f, err := os.Create(ex.Cfg.Transcript)
		if err == nil {
			defer f.Close()
			tr = f
		}
	}
	w.sol = newSolver(ex.Cfg.SolverBin, ex.Cfg.TimeoutMs, tr)
	for {
		ex.mu.Lock()
		for len(ex.work) == 0 && ex.active > 0 && !ex.stop {
			ex.cond.Wait()
		}
		if ex.stop || len(ex.work) == 0 {
			ex.mu.Unlock()
			ex.cond.Broadcast()
			return
		}
		prefix := ex.work[len(ex.work)-1]
		ex.work = ex.work[:len(ex.work)-1]
		ex.active++
		ex.mu.Unlock()

		w.runPath(prefix)

		ex.mu.Lock()
		ex.active--
		if ex.Cfg.MaxPaths > 0 && ex.res.Paths >= ex.Cfg.MaxPaths && len(ex.work) > 0 {
			ex.stop = true
			ex.res.Inconcl["budget:max-paths"]++
		}
		if ex.Cfg.Deadline > 0 && time.Since(ex.start) > ex.Cfg.Deadline && len(ex.work) > 0 {
			ex.stop = true
			ex.res.Inconcl["budget:deadline"]++
		}
		ex.mu.Unlock()
		ex.cond.Broadcast()
	}
}

func (ex *Explorer) push(alt []Decision) {
	ex.mu.Lock()
	ex.work = append(ex.work, alt)
	ex.mu.Unlock()
	ex.cond.Signal()
}

func (w *worker) ensureInterp() {
	if w.i != nil {
		return
	}
	ex := w.ex
	prog := ex.Prog
	i := &interpreter{prog: prog, globals: make(map[*ssa.Global]*value), sizes: &types.StdSizes{WordSize: 8, MaxAlign: 8}, goroutines: 1}
	runtimePkg := prog.ImportedPackage("runtime")
	i.runtimeErrorString = runtimePkg.Type("errorString").Object().Type()
	initReflect(i)
	i.w = w
	i.initAllow = map[string]bool{}
	for _, p := range ex.Cfg.InitAllow {
		i.initAllow[p] = true
	}
	i.initAllow[ex.Pkg.Pkg.Path()] = true
	for _, p := range prog.AllPackages() {
		for _, m := range p.Members {
			if v, ok := m.(*ssa.Global); ok {
				cell := zero(mustDeref(v.Type()))
				i.globals[v] = &cell
			}
		}
	}
	w.i = i
	w.onceWarm = map[*value]bool{}
	w.oncePath = map[*value]bool{}
	w.warmOrd = map[uintptr]*mapOrd{}
	w.pathOrd = map[uintptr]*mapOrd{}
	// warm-up: package init of the package under test (and allowed deps), then optional Warmup
	st := &pstate{ex: ex, w: w, sol: w.sol, symIDs: map[*symS]int{}, frozen: map[*value]string{}, frozenMaps: map[uintptr]string{}, classes: map[string]string{}}
	i.sym = st
	w.sol.send("(push)")
	func() {
		defer func() {
			if r := recover(); r != nil {
				ex.mu.Lock()
				ex.res.Inconcl["warmup-failed"]++
				ex.res.InconclEx["warmup-failed"] = fmt.Sprint(r)
				ex.stop = true
				ex.mu.Unlock()
			}
		}()
		call(i, nil, token.NoPos, ex.Pkg.Func("init"), nil)
		if ex.Cfg.Warmup != "" {
			if f := ex.Pkg.Func(ex.Cfg.Warmup); f != nil {
				call(i, nil, token.NoPos, f, nil)
			}
		}
	}()
	w.sol.send("(pop)")
	for k := range w.oncePath {
		w.onceWarm[k] = true
	}
	w.warmDone = true
	// packages whose globals are re-initialised per path: the package under test
	w.resetPkgs = []*ssa.Package{ex.Pkg}
}

// collectGlobalCells records the addresses of all cells that make up the
// package-level variables of the repository's packages (the variable itself
// and, for struct/array values, every field/element cell), so that a store
// through a pointer into such a variable is seen by the monitor as well.
func (w *worker) collectGlobalCells() {
	w.globalCells = map[*value]string{}
	prefix := w.ex.Cfg.RepoPrefix
	if prefix == "" {
		return
	}
	// the variable's own cells and everything reachable from it through pointers, slices and interfaces: an
	// object a package-level variable points to (a cache, a random source, a buffer) is process-wide state just as
	// the variable itself
	var walk func(p *value, name string, depth int)
	var follow func(v value, name string, depth int)
	walk = func(p *value, name string, depth int) {
		if p == nil || depth > 8 {
			return
		}
		if _, seen := w.globalCells[p]; seen {
			return
		}
		w.globalCells[p] = name
		switch c := (*p).(type) {
		case structure:
			for i := range c {
				walk(&c[i], name, depth+1)
			}
		case array:
			for i := range c {
				walk(&c[i], name, depth+1)
			}
		default:
			follow(c, name, depth+1)
		}
	}
	follow = func(v value, name string, depth int) {
		switch x := v.(type) {
		case *value:
			walk(x, name+" (object it points to)", depth)
		case []value:
			full := x[:cap(x)]
			for i := range full {
				walk(&full[i], name+" (element)", depth)
			}
		case iface:
			follow(x.v, name, depth)
		}
	}
	for g, cell := range w.i.globals {
		if g.Pkg == nil || !strings.HasPrefix(g.Pkg.Pkg.Path(), prefix) || strings.HasSuffix(g.Pkg.Pkg.Path(), "/zzverif") || strings.HasSuffix(g.Pkg.Pkg.Path(), "/gen") {
			continue
		}
		if strings.HasPrefix(g.Name(), "init$") || strings.HasPrefix(g.Name(), "verif") || strings.HasPrefix(g.Name(), "Verif") || isHarnessGlobal(g) {
			continue
		}
		walk(cell, g.String(), 0)
	}
}

func isHarnessGlobal(g *ssa.Global) bool {
	pos := g.Pos()
	if !pos.IsValid() {
		return false
	}
	return strings.Contains(g.Pkg.Prog.Fset.Position(pos).Filename, "zz_verif")
}

func (w *worker) resetGlobals() {
	for _, p := range w.resetPkgs {
		for _, m := range p.Members {
			if v, ok := m.(*ssa.Global); ok {
				cell := zero(mustDeref(v.Type()))
				*w.i.globals[v] = cell
			}
		}
	}
}

func (w *worker) runPath(prefix []Decision) {
	ex := w.ex
	w.ensureInterp()
	if ex.stop {
		return
	}
	st := &pstate{ex: ex, w: w, sol: w.sol, prefix: prefix, symIDs: map[*symS]int{}, frozen: map[*value]string{}, frozenMaps: map[uintptr]string{}, classes: map[string]string{}}
	w.i.sym = st
	w.oncePath = map[*value]bool{}
	w.pathOrd = map[uintptr]*mapOrd{}
	w.sol.lastErr = ""
	w.sol.send("(push)")
	end := "ok"
	msg := ""
	func() {
		defer func() {
			if r := recover(); r != nil {
				switch e := r.(type) {
				case engineAbort:
					end, msg = e.kind, e.msg
				case targetPanic:
					end, msg = "panic", toStringSafe(e.v, w.i)
				case targetRT:
					end, msg = "panic", "runtime error: "+e.msg
				case runtime.Error:
					m := e.Error()
					if strings.Contains(m, "interp.") && strings.Contains(m, "interface conversion") {
						end, msg = "unsupported", "engine type error: "+m+" @ "+st.panicSite
					} else {
						end, msg = "panic", "runtime error: "+m
					}
				case string:
					if isTargetPanicString(e) {
						end, msg = "panic", e
					} else {
						end, msg = "unsupported", "interp: "+e+" @ "+st.panicSite
					}
				default:
					end, msg = "unsupported", fmt.Sprintf("interp panic %T: %v", r, r)
				}
			}
		}()
		w.resetGlobals()
		call(w.i, nil, token.NoPos, ex.Pkg.Func("init"), nil)
		w.collectGlobalCells()
		call(w.i, nil, token.NoPos, ex.Pkg.Func(ex.Cfg.Harness), nil)
	}()
	if end == "panic" {
		// an uncaught Go panic of the interpreted code: violation (C08 monitor)
		st.report("panic", "panic", st.panicSite, msg+" in "+st.panicSite, true)
	}
	if end == "ok" {
		st.reachLabel("return")
		if k := ex.Cfg.SampleWitnesses; k > 0 {
			ex.mu.Lock()
			// spread the samples: every path until k/2, then every 50th path
			n := len(ex.res.PathWitnesses)
			take := n < k && (n < k/2 || ex.res.Paths%50 == 0)
			ex.mu.Unlock()
			if take && st.sol.check() == "sat" {
				w := st.witness()
				ex.mu.Lock()
				ex.res.PathWitnesses = append(ex.res.PathWitnesses, w)
				ex.mu.Unlock()
			}
		}
	}
	w.sol.send("(pop)")
	ex.mu.Lock()
	r := ex.res
	r.Paths++
	r.Ends[end]++
	r.Decisions += len(st.log)
	for _, d := range st.log {
		if d.Kind == DSchedule {
			r.SchedDec++
		} else {
			r.InputDec++
		}
	}
	if st.steps > r.MaxSteps {
		r.MaxSteps = st.steps
	}
	switch end {
	case "unsupported", "unwind", "solver-died":
		key := end + ": " + msg
		if len(key) > 300 {
			key = key[:300]
		}
		r.Inconcl[key]++
	case "pruned":
		r.Pruned++
	}
	if len(r.Samples) < 5 && end == "ok" {
		r.Samples = append(r.Samples, st.describe())
	}
	ex.mu.Unlock()
}

func isTargetPanicString(s string) bool {
	for _, p := range []string{"interface conversion:", "method invoked on nil interface", "value method ", "call of nil function"} {
		if strings.HasPrefix(s, p) {
			return true
		}
	}
	return false
}

func toStringSafe(v value, i *interpreter) (s string) {
	defer func() {
		if r := recover(); r != nil {
			s = fmt.Sprintf("<%T>", v)
		}
	}()
	if itf, ok := v.(iface); ok && itf.t != nil {
		if str, ok := itf.v.(string); ok {
			return str
		}
		// error values: call Error()
		ms := i.prog.MethodSets.MethodSet(itf.t)
		if sel := ms.Lookup(nil, "Error"); sel != nil {
			if fn := i.prog.MethodValue(sel); fn != nil {
				if r, ok := call(i, nil, token.NoPos, fn, []value{itf.v}).(string); ok {
					return r
				}
			}
		}
	}
	return toString(v)
}

// ---- decisions

func (st *pstate) replaying() bool { return len(st.log) < len(st.prefix) }

// step accounting (unwinding assertion)
func (st *pstate) tick(fr *frame) {
	st.steps++
	if st.budget > 0 && st.steps > st.budget {
		label := st.budgetLabel
		st.budget = 0
		if !st.replaying() {
			st.reportAssert(label, st.budgetSite, true)
		}
		panic(engineAbort{"assert-failed", label})
	}
	if st.steps > st.ex.Cfg.MaxSteps {
		panic(engineAbort{"unwind", "instruction budget exceeded in " + fr.fn.String()})
	}
}

// name gives a big bit-vector term a solver-side name.
func (st *pstate) name(t string, bits int) string {
	if len(t) <= 160 {
		return t
	}
	n := fmt.Sprintf("n%d", st.nnames)
	st.nnames++
	st.sol.send(fmt.Sprintf("(define-fun %s () (_ BitVec %d) %s)", n, bits, t))
	if st.ex.Cfg.RecordAsserts > 0 {
		st.script = append(st.script, fmt.Sprintf("(define-fun %s () (_ BitVec %d) %s)", n, bits, t))
	}
	return n
}

func (st *pstate) nameBool(t string) string {
	if len(t) <= 240 {
		return t
	}
	n := fmt.Sprintf("n%d", st.nnames)
	st.nnames++
	st.sol.send(fmt.Sprintf("(define-fun %s () Bool %s)", n, t))
	if st.ex.Cfg.RecordAsserts > 0 {
		st.script = append(st.script, fmt.Sprintf("(define-fun %s () Bool %s)", n, t))
	}
	if st.defs == nil {
		st.defs = map[string]string{}
	}
	st.defs[n] = t
	return n
}

func (st *pstate) assertPC(t string) {
	if t == "true" {
		return
	}
	st.sol.send("(assert " + t + ")")
	st.pc = append(st.pc, t)
	if st.ex.Cfg.RecordAsserts > 0 {
		st.script = append(st.script, "(assert "+t+")")
	}
	h := sha256.New()
	h.Write(st.pcHash[:])
	h.Write([]byte(t))
	copy(st.pcHash[:], h.Sum(nil))
}

func (st *pstate) feasible(t string) string {
	st.sol.send("(push)")
	st.sol.send("(assert " + t + ")")
	r := st.sol.check()
	st.sol.send("(pop)")
	return r
}

// mustHold reports whether t is implied by the path condition.
func (st *pstate) mustHold(t string) bool {
	return st.feasible(tNot(t)) == "unsat"
}

// branchValue forks on a boolean value (concrete values pass through).
func (st *pstate) branchValue(v value) bool {
	switch c := v.(type) {
	case bool:
		return c
	case symBool:
		return st.branch(c.t)
	}
	panic(unsupported(fmt.Sprintf("branch on %T", v)))
}

func (st *pstate) branch(c string) bool {
	if c == "true" {
		return true
	}
	if c == "false" {
		return false
	}
	c = st.nameBool(c)
	k := len(st.log)
	var dir bool
	if k < len(st.prefix) {
		if st.prefix[k].Kind != DBranch {
			panic(engineAbort{"unsupported", "non-deterministic replay (expected branch)"})
		}
		dir = st.prefix[k].Val == 1
	} else {
		ft := st.feasible(c)
		ff := st.feasible(tNot(c))
		t := ft != "unsat"
		f := ff != "unsat"
		switch {
		case t && f:
			alt := append(append(make([]Decision, 0, len(st.log)+1), st.log...), Decision{DBranch, 0})
			st.ex.push(alt)
			dir = true
		case t:
			dir = true
		case f:
			dir = false
		default:
			panic(engineAbort{"infeasible", ""})
		}
	}
	if dir {
		st.log = append(st.log, Decision{DBranch, 1})
		st.assertPC(c)
	} else {
		st.log = append(st.log, Decision{DBranch, 0})
		st.assertPC(tNot(c))
	}
	return dir
}

// choose returns a value in [0,n) explored exhaustively.
func (st *pstate) choose(n int, kind byte, fr *frame, prune bool) int {
	if n <= 1 {
		return 0
	}
	k := len(st.log)
	var c int
	if k < len(st.prefix) {
		if st.prefix[k].Kind != kind {
			panic(engineAbort{"unsupported", "non-deterministic replay (expected choice)"})
		}
		c = st.prefix[k].Val
	} else {
		if prune && st.ex.Cfg.Prune {
			h := stateHash(fr, st)
			sh := &st.ex.seen[h[0]&63]
			sh.mu.Lock()
			seen := sh.m[h]
			if !seen {
				sh.m[h] = true
			}
			sh.mu.Unlock()
			if seen {
				panic(engineAbort{"pruned", ""})
			}
		}
		for alt := n - 1; alt >= 1; alt-- {
			a := append(append(make([]Decision, 0, len(st.log)+1), st.log...), Decision{kind, alt})
			st.ex.push(a)
		}
		c = 0
	}
	st.log = append(st.log, Decision{kind, c})
	return c
}

// ---- witnesses

func (st *pstate) freshVar(sort string) string {
	n := fmt.Sprintf("v%d", st.nvars)
	st.nvars++
	st.sol.send("(declare-const " + n + " " + sort + ")")
	if st.ex.Cfg.RecordAsserts > 0 {
		st.script = append(st.script, "(declare-const "+n+" "+sort+")")
	}
	return n
}

func parseBV(s string) uint64 {
	var v uint64
	if strings.HasPrefix(s, "#x") {
		fmt.Sscanf(s[2:], "%x", &v)
	} else if strings.HasPrefix(s, "#b") {
		for _, c := range s[2:] {
			v = v<<1 | uint64(c-'0')
		}
	}
	return v
}

// witness builds the concrete input list; model=true asks the solver (the
// current context must be sat), otherwise symbolic inputs are filled with zeros.
func (st *pstate) witness() *Witness {
	names := []string{}
	for _, in := range st.inputs {
		if !in.isConc {
			names = append(names, in.vars...)
		}
	}
	vals := map[string]string{}
	if len(names) > 0 {
		// prefer a model whose string bytes are printable ASCII (natively replayable
		// through text formats); fall back to an arbitrary model
		var prefs []string
		for _, in := range st.inputs {
			if !in.isConc && in.kind == "str" {
				for _, v := range in.vars {
					prefs = append(prefs, "(and (bvuge "+v+" #x21) (bvule "+v+" #x7e) (not (= "+v+" #x22)) (not (= "+v+" #x27)))")
				}
			}
		}
		got := false
		if len(prefs) > 0 {
			st.sol.send("(push)")
			st.sol.send("(assert " + tAnd(prefs...) + ")")
			if st.sol.check() == "sat" {
				vals = st.sol.getValues(names)
				got = true
			}
			st.sol.send("(pop)")
			if !got {
				st.sol.check() // re-establish the model of the unconstrained context
			}
		}
		if !got {
			vals = st.sol.getValues(names)
		}
	}
	w := &Witness{Harness: st.ex.Cfg.Harness, Params: st.ex.Cfg.Params}
	for _, in := range st.inputs {
		if in.isConc {
			w.Inputs = append(w.Inputs, in.conc)
			continue
		}
		iv := InputVal{Kind: in.kind, Tag: in.tag}
		switch in.kind {
		case "bool":
			iv.B = vals[in.vars[0]] == "true"
		case "int":
			iv.I = int64(parseBV(vals[in.vars[0]]))
		case "str":
			iv.S = make([]int, len(in.vars))
			for i, v := range in.vars {
				iv.S[i] = int(parseBV(vals[v]))
			}
		}
		w.Inputs = append(w.Inputs, iv)
	}
	for _, d := range st.log {
		if d.Kind == DSchedule {
			w.Schedule = append(w.Schedule, d.Val)
		}
	}
	return w
}

// concreteWitness returns the witness of the path if every input so far is concrete.
func (st *pstate) concreteWitness() *Witness {
	w := &Witness{Harness: st.ex.Cfg.Harness, Params: st.ex.Cfg.Params}
	for _, in := range st.inputs {
		if !in.isConc {
			return nil
		}
		w.Inputs = append(w.Inputs, in.conc)
	}
	return w
}

// inputKey identifies the input decisions of the path (not the schedule).
func (st *pstate) inputKey() string {
	var sb strings.Builder
	for _, d := range st.log {
		if d.Kind != DSchedule {
			fmt.Fprintf(&sb, "%c%d.", d.Kind, d.Val)
		}
	}
	return sb.String()
}

func (st *pstate) describe() string {
	var sb strings.Builder
	for _, in := range st.inputs {
		if in.isConc {
			fmt.Fprintf(&sb, "%s=%d ", in.tag, in.conc.I)
		} else {
			fmt.Fprintf(&sb, "%s:%s[%d] ", in.tag, in.kind, len(in.vars))
		}
	}
	fmt.Fprintf(&sb, "| %d decisions", len(st.log))
	return sb.String()
}

// report records a violation; needModel says the solver context is sat and a
// model can be read (the caller holds the violating context).
func (st *pstate) report(kind, label, site, detail string, needModel bool) {
	class := st.classes[label]
	if kind == "panic" {
		class = site
	}
	var w *Witness
	if needModel {
		if kind == "panic" || kind == "frozen" || kind == "global-store" {
			// the path condition itself is the witness
			if st.sol.check() != "sat" {
				st.ex.mu.Lock()
				st.ex.res.Inconcl["witness-unknown: "+label]++
				st.ex.mu.Unlock()
			}
		}
		w = st.witness()
	}
	key := kind + "|" + label + "|" + class + "|" + st.inputKey()
	st.ex.mu.Lock()
	defer st.ex.mu.Unlock()
	if v, ok := st.ex.vioKeys[key]; ok {
		v.Count++
		return
	}
	if len(st.ex.vioKeys) >= st.ex.Cfg.MaxViolation {
		st.ex.res.Notes = append(st.ex.res.Notes, "violation list truncated")
		return
	}
	st.ex.vioKeys[key] = &Violation{Harness: st.ex.Cfg.Harness, Label: label, Class: class, Kind: kind, Detail: detail, Site: site, Witness: w, InputKey: st.inputKey(), Count: 1}
}

func (st *pstate) reachLabel(label string) {
	st.ex.mu.Lock()
	rr := st.ex.res.Reach[label]
	if rr == nil {
		rr = &ReachRec{}
		st.ex.res.Reach[label] = rr
	}
	rr.Count++
	need := rr.Witness == nil
	if need {
		rr.Witness = &Witness{} // placeholder so that concurrent paths do not duplicate
	}
	st.ex.mu.Unlock()
	if need {
		var w *Witness
		if st.sol.check() == "sat" {
			w = st.witness()
		}
		st.ex.mu.Lock()
		rr.Witness = w
		st.ex.mu.Unlock()
	}
}

func hashHex(b []byte) string {
	h := sha256.Sum256(b)
	return hex.EncodeToString(h[:8])
}
