package interp

// Symbolic values and the term layer of gosymx.
//
// Terms are SMT-LIB2 text.  Scalars are bit-vectors of the exact Go width so
// that wrapping arithmetic is kept.  Strings have a concrete length and
// symbolic bytes.  Heap shape (pointers, slices, maps) stays concrete.

import (
	"fmt"
	"go/token"
	"go/types"
	"strings"
)

// symInt is a symbolic integer of basic kind k (width and signedness from k).
type symInt struct {
	t string
	k types.BasicKind
}

type symBool struct{ t string }

// symS is a string of concrete length whose bytes are uint8 or symInt{Uint8}.
type symS struct{ b []value }
type symStr = *symS

// symF is a float64 that is exactly the (signed 64-bit) integer t.
type symF struct{ t string }

// opaqueStr is an SMT String variable of unknown length; only intercepts
// (regexp.MatchString) may consume it.
type opaqueStr struct{ name string }

func kindBits(k types.BasicKind) int {
	switch k {
	case types.Int8, types.Uint8:
		return 8
	case types.Int16, types.Uint16:
		return 16
	case types.Int32, types.Uint32:
		return 32
	case types.Int, types.Int64, types.Uint, types.Uint64, types.Uintptr:
		return 64
	}
	panic(unsupported("kindBits of kind " + fmt.Sprint(k)))
}

func kindSigned(k types.BasicKind) bool {
	switch k {
	case types.Int, types.Int8, types.Int16, types.Int32, types.Int64:
		return true
	}
	return false
}

func kindOf(v value) (types.BasicKind, bool) {
	switch x := v.(type) {
	case symInt:
		return x.k, true
	case int:
		return types.Int, true
	case int8:
		return types.Int8, true
	case int16:
		return types.Int16, true
	case int32:
		return types.Int32, true
	case int64:
		return types.Int64, true
	case uint:
		return types.Uint, true
	case uint8:
		return types.Uint8, true
	case uint16:
		return types.Uint16, true
	case uint32:
		return types.Uint32, true
	case uint64:
		return types.Uint64, true
	case uintptr:
		return types.Uintptr, true
	}
	return 0, false
}

func bvConst(v uint64, bits int) string {
	switch bits {
	case 8:
		return fmt.Sprintf("#x%02x", uint8(v))
	case 16:
		return fmt.Sprintf("#x%04x", uint16(v))
	case 32:
		return fmt.Sprintf("#x%08x", uint32(v))
	}
	return fmt.Sprintf("#x%016x", v)
}

// intTerm returns the bit-vector term of an integer value (concrete or symbolic).
func intTerm(v value) string {
	switch x := v.(type) {
	case symInt:
		return x.t
	case int:
		return bvConst(uint64(x), 64)
	case int8:
		return bvConst(uint64(x), 8)
	case int16:
		return bvConst(uint64(x), 16)
	case int32:
		return bvConst(uint64(x), 32)
	case int64:
		return bvConst(uint64(x), 64)
	case uint:
		return bvConst(uint64(x), 64)
	case uint8:
		return bvConst(uint64(x), 8)
	case uint16:
		return bvConst(uint64(x), 16)
	case uint32:
		return bvConst(uint64(x), 32)
	case uint64:
		return bvConst(x, 64)
	case uintptr:
		return bvConst(uint64(x), 64)
	}
	panic(unsupported(fmt.Sprintf("intTerm of %T", v)))
}

func isSym(v value) bool {
	switch v.(type) {
	case symInt, symBool, symStr, symF, opaqueStr:
		return true
	}
	return false
}

// containsSym reports whether a (possibly aggregate) comparable value holds a
// symbolic leaf.
func containsSym(v value) bool {
	switch x := v.(type) {
	case symInt, symBool, symStr, symF, opaqueStr:
		return true
	case structure:
		for _, e := range x {
			if containsSym(e) {
				return true
			}
		}
	case array:
		for _, e := range x {
			if containsSym(e) {
				return true
			}
		}
	case iface:
		return containsSym(x.v)
	}
	return false
}

func mkStr(b []value) value {
	for _, x := range b {
		if _, ok := x.(symInt); ok {
			return &symS{b}
		}
	}
	bs := make([]byte, len(b))
	for i, x := range b {
		bs[i] = x.(uint8)
	}
	return string(bs)
}

func strBytes(v value) []value {
	switch s := v.(type) {
	case symStr:
		return s.b
	case string:
		out := make([]value, len(s))
		for i := 0; i < len(s); i++ {
			out[i] = s[i]
		}
		return out
	}
	panic(unsupported(fmt.Sprintf("strBytes of %T", v)))
}

func isStrVal(v value) bool {
	switch v.(type) {
	case string, symStr:
		return true
	}
	return false
}

func strLen(v value) int {
	switch s := v.(type) {
	case symStr:
		return len(s.b)
	case string:
		return len(s)
	}
	panic(unsupported(fmt.Sprintf("strLen of %T", v)))
}

// ---- boolean term helpers

func tNot(t string) string {
	switch t {
	case "true":
		return "false"
	case "false":
		return "true"
	}
	if strings.HasPrefix(t, "(not ") && balancedTail(t[5:len(t)-1]) {
		return t[5 : len(t)-1]
	}
	return "(not " + t + ")"
}

func balancedTail(s string) bool {
	d := 0
	for i := 0; i < len(s); i++ {
		switch s[i] {
		case '(':
			d++
		case ')':
			d--
			if d < 0 {
				return false
			}
			if d == 0 && i != len(s)-1 {
				return false
			}
		case ' ':
			if d == 0 {
				return false
			}
		}
	}
	return d == 0
}

func tAnd(ts ...string) string {
	out := make([]string, 0, len(ts))
	for _, t := range ts {
		if t == "false" {
			return "false"
		}
		if t != "true" {
			out = append(out, t)
		}
	}
	switch len(out) {
	case 0:
		return "true"
	case 1:
		return out[0]
	}
	return "(and " + strings.Join(out, " ") + ")"
}

func tOr(ts ...string) string {
	out := make([]string, 0, len(ts))
	for _, t := range ts {
		if t == "true" {
			return "true"
		}
		if t != "false" {
			out = append(out, t)
		}
	}
	switch len(out) {
	case 0:
		return "false"
	case 1:
		return out[0]
	}
	return "(or " + strings.Join(out, " ") + ")"
}

func tIte(c, a, b string) string {
	switch c {
	case "true":
		return a
	case "false":
		return b
	}
	if a == b {
		return a
	}
	return "(ite " + c + " " + a + " " + b + ")"
}

func mkBool(t string) value {
	switch t {
	case "true":
		return true
	case "false":
		return false
	}
	return symBool{t}
}

func boolTerm(v value) string {
	switch x := v.(type) {
	case bool:
		if x {
			return "true"
		}
		return "false"
	case symBool:
		return x.t
	}
	panic(unsupported(fmt.Sprintf("boolTerm of %T", v)))
}

// byteEq returns the term for a == b over two byte values.
func byteEq(a, b value) string {
	if x, ok := a.(uint8); ok {
		if y, ok := b.(uint8); ok {
			if x == y {
				return "true"
			}
			return "false"
		}
	}
	at, bt := intTerm(a), intTerm(b)
	if at == bt {
		return "true"
	}
	return "(= " + at + " " + bt + ")"
}

func byteLt(a, b value) string {
	if x, ok := a.(uint8); ok {
		if y, ok := b.(uint8); ok {
			if x < y {
				return "true"
			}
			return "false"
		}
	}
	return "(bvult " + intTerm(a) + " " + intTerm(b) + ")"
}

func strEqTerm(x, y value) string {
	xb, yb := strBytes(x), strBytes(y)
	if len(xb) != len(yb) {
		return "false"
	}
	cs := make([]string, 0, len(xb))
	for i := range xb {
		cs = append(cs, byteEq(xb[i], yb[i]))
	}
	return tAnd(cs...)
}

// strLtTerm: lexicographic x < y over bytes.
func strLtTerm(x, y value) string {
	xb, yb := strBytes(x), strBytes(y)
	n := len(xb)
	if len(yb) < n {
		n = len(yb)
	}
	// build from the end: lt_i = a[i]<b[i] or (a[i]==b[i] and lt_{i+1})
	var tail string
	if len(xb) < len(yb) {
		tail = "true"
	} else {
		tail = "false"
	}
	for i := n - 1; i >= 0; i-- {
		tail = tOr(byteLt(xb[i], yb[i]), tAnd(byteEq(xb[i], yb[i]), tail))
	}
	return tail
}

// matchAt returns the term "hay[i:i+len(needle)] == needle".
func matchAt(hay []value, i int, needle []value) string {
	if i < 0 || i+len(needle) > len(hay) {
		return "false"
	}
	cs := make([]string, 0, len(needle))
	for j := range needle {
		cs = append(cs, byteEq(hay[i+j], needle[j]))
	}
	return tAnd(cs...)
}

func containsTerm(hay, needle []value) string {
	alts := []string{}
	for i := 0; i+len(needle) <= len(hay); i++ {
		alts = append(alts, matchAt(hay, i, needle))
	}
	return tOr(alts...)
}

// ---- binop / unop / conv on symbolic operands

func cmpOpSigned(op token.Token, signed bool) string {
	switch op {
	case token.LSS:
		if signed {
			return "bvslt"
		}
		return "bvult"
	case token.LEQ:
		if signed {
			return "bvsle"
		}
		return "bvule"
	case token.GTR:
		if signed {
			return "bvsgt"
		}
		return "bvugt"
	case token.GEQ:
		if signed {
			return "bvsge"
		}
		return "bvuge"
	}
	return ""
}

func symBinop(st *pstate, op token.Token, t types.Type, x, y value) value {
	// strings
	if isStrVal(x) && isStrVal(y) {
		switch op {
		case token.ADD:
			xb, yb := strBytes(x), strBytes(y)
			return mkStr(append(append(make([]value, 0, len(xb)+len(yb)), xb...), yb...))
		case token.EQL:
			return mkBool(strEqTerm(x, y))
		case token.NEQ:
			return mkBool(tNot(strEqTerm(x, y)))
		case token.LSS:
			return mkBool(strLtTerm(x, y))
		case token.GTR:
			return mkBool(strLtTerm(y, x))
		case token.LEQ:
			return mkBool(tNot(strLtTerm(y, x)))
		case token.GEQ:
			return mkBool(tNot(strLtTerm(x, y)))
		}
		panic(unsupported("string binop " + op.String()))
	}
	if _, ok := x.(opaqueStr); ok {
		panic(unsupported("binop on opaque string " + op.String()))
	}
	if _, ok := y.(opaqueStr); ok {
		panic(unsupported("binop on opaque string " + op.String()))
	}
	// bools
	_, xb := x.(symBool)
	_, yb := y.(symBool)
	if xb || yb {
		a, b := boolTerm(x), boolTerm(y)
		switch op {
		case token.EQL:
			return mkBool("(= " + a + " " + b + ")")
		case token.NEQ:
			return mkBool("(not (= " + a + " " + b + "))")
		}
		panic(unsupported("bool binop " + op.String()))
	}
	// floats derived from ints
	_, xf := x.(symF)
	_, yf := y.(symF)
	if xf || yf {
		panic(unsupported("float binop on symbolic value " + op.String()))
	}
	// aggregates
	switch x.(type) {
	case structure, array, iface:
		switch op {
		case token.EQL:
			return mkBool(symEqualsTerm(st, t, x, y))
		case token.NEQ:
			return mkBool(tNot(symEqualsTerm(st, t, x, y)))
		}
		panic(unsupported("aggregate binop " + op.String()))
	}
	// integers
	kx, okx := kindOf(x)
	ky, oky := kindOf(y)
	if !okx || !oky {
		panic(unsupported(fmt.Sprintf("symBinop %T %s %T", x, op, y)))
	}
	if op == token.SHL || op == token.SHR {
		bits := kindBits(kx)
		a := intTerm(x)
		var b string
		if _, ysym := y.(symInt); !ysym {
			n := asUint64Any(y)
			if n >= uint64(bits) {
				n = uint64(bits)
			}
			b = bvConst(n, bits)
		} else {
			yb := kindBits(ky)
			b = intTerm(y)
			if yb < bits {
				b = fmt.Sprintf("((_ zero_extend %d) %s)", bits-yb, b)
			} else if yb > bits {
				// saturate: if y >= bits result is as for bits
				lo := fmt.Sprintf("((_ extract %d 0) %s)", bits-1, b)
				b = tIte("(bvuge "+b+" "+bvConst(uint64(bits), yb)+")", bvConst(uint64(bits), bits), lo)
			}
		}
		o := "bvshl"
		if op == token.SHR {
			if kindSigned(kx) {
				o = "bvashr"
			} else {
				o = "bvlshr"
			}
		}
		return symInt{st.name("("+o+" "+a+" "+b+")", bits), kx}
	}
	if kx != ky {
		// tolerate int/uint mismatches of equal width produced by untyped consts
		if kindBits(kx) != kindBits(ky) {
			panic(unsupported(fmt.Sprintf("symBinop kind mismatch %v %v", kx, ky)))
		}
	}
	bits := kindBits(kx)
	signed := kindSigned(kx)
	a, b := intTerm(x), intTerm(y)
	switch op {
	case token.EQL:
		if a == b {
			return true
		}
		return mkBool("(= " + a + " " + b + ")")
	case token.NEQ:
		if a == b {
			return false
		}
		return mkBool("(not (= " + a + " " + b + "))")
	case token.LSS, token.LEQ, token.GTR, token.GEQ:
		return mkBool("(" + cmpOpSigned(op, signed) + " " + a + " " + b + ")")
	case token.ADD:
		return symInt{st.name("(bvadd "+a+" "+b+")", bits), kx}
	case token.SUB:
		return symInt{st.name("(bvsub "+a+" "+b+")", bits), kx}
	case token.MUL:
		return symInt{st.name("(bvmul "+a+" "+b+")", bits), kx}
	case token.AND:
		return symInt{st.name("(bvand "+a+" "+b+")", bits), kx}
	case token.OR:
		return symInt{st.name("(bvor "+a+" "+b+")", bits), kx}
	case token.XOR:
		return symInt{st.name("(bvxor "+a+" "+b+")", bits), kx}
	case token.AND_NOT:
		return symInt{st.name("(bvand "+a+" (bvnot "+b+"))", bits), kx}
	case token.QUO, token.REM:
		if _, ysym := y.(symInt); ysym {
			// division by a symbolic value: split on zero
			z := mkBool("(= " + b + " " + bvConst(0, bits) + ")")
			if st.branchValue(z) {
				panic(runtimeErr("integer divide by zero"))
			}
		} else if asUint64Any(y) == 0 {
			panic(runtimeErr("integer divide by zero"))
		}
		var o string
		switch {
		case op == token.QUO && signed:
			o = "bvsdiv"
		case op == token.QUO:
			o = "bvudiv"
		case signed:
			o = "bvsrem"
		default:
			o = "bvurem"
		}
		return symInt{st.name("("+o+" "+a+" "+b+")", bits), kx}
	}
	panic(unsupported("symBinop int " + op.String()))
}

func asUint64Any(v value) uint64 {
	switch x := v.(type) {
	case int:
		return uint64(x)
	case int8:
		return uint64(x)
	case int16:
		return uint64(x)
	case int32:
		return uint64(x)
	case int64:
		return uint64(x)
	case uint:
		return uint64(x)
	case uint8:
		return uint64(x)
	case uint16:
		return uint64(x)
	case uint32:
		return uint64(x)
	case uint64:
		return x
	case uintptr:
		return uint64(x)
	}
	panic(unsupported(fmt.Sprintf("asUint64Any %T", v)))
}

func symUnop(st *pstate, op token.Token, x value) value {
	switch v := x.(type) {
	case symBool:
		if op == token.NOT {
			return mkBool(tNot(v.t))
		}
	case symInt:
		bits := kindBits(v.k)
		switch op {
		case token.SUB:
			return symInt{st.name("(bvneg "+v.t+")", bits), v.k}
		case token.XOR:
			return symInt{st.name("(bvnot "+v.t+")", bits), v.k}
		}
	}
	panic(unsupported(fmt.Sprintf("symUnop %s %T", op, x)))
}

// symConv converts a symbolic scalar or string.
func symConv(st *pstate, t_dst, t_src types.Type, x value) value {
	ud := t_dst.Underlying()
	switch v := x.(type) {
	case symInt:
		bd, ok := ud.(*types.Basic)
		if !ok {
			panic(unsupported("conv symInt -> " + t_dst.String()))
		}
		if bd.Kind() == types.Float64 {
			// keep the exact integer (sign/zero-extended to 64 bits)
			return symF{extendTo64(v)}
		}
		if bd.Kind() == types.String {
			panic(unsupported("string(rune) of symbolic integer"))
		}
		if bd.Info()&types.IsInteger == 0 {
			panic(unsupported("conv symInt -> " + t_dst.String()))
		}
		return convInt(st, v, bd.Kind())
	case symF:
		bd, ok := ud.(*types.Basic)
		if !ok || bd.Info()&types.IsInteger == 0 {
			if ok && bd.Kind() == types.Float64 {
				return v
			}
			panic(unsupported("conv symF -> " + t_dst.String()))
		}
		return convInt(st, symInt{v.t, types.Int64}, bd.Kind())
	case symStr:
		switch ud := ud.(type) {
		case *types.Basic:
			if ud.Kind() == types.String {
				return v
			}
		case *types.Slice:
			if eb, ok := ud.Elem().Underlying().(*types.Basic); ok {
				switch eb.Kind() {
				case types.Byte:
					out := make([]value, len(v.b))
					copy(out, v.b)
					return out
				case types.Rune:
					// only when every byte is provably ASCII on this path
					out := make([]value, len(v.b))
					for i, b := range v.b {
						switch bb := b.(type) {
						case uint8:
							if bb >= 0x80 {
								panic(unsupported("[]rune of symbolic string with non-ASCII constant"))
							}
							out[i] = rune(bb)
						case symInt:
							if !st.mustHold("(bvult " + bb.t + " #x80)") {
								panic(unsupported("[]rune of symbolic string that may be non-ASCII"))
							}
							out[i] = symInt{st.name("((_ zero_extend 24) "+bb.t+")", 32), types.Int32}
						}
					}
					return out
				}
			}
		}
		panic(unsupported("conv symStr -> " + t_dst.String()))
	case opaqueStr:
		if b, ok := ud.(*types.Basic); ok && b.Kind() == types.String {
			return v
		}
		panic(unsupported("conv opaque string -> " + t_dst.String()))
	}
	// []byte / []rune with symbolic elements -> string
	if sl, ok := x.([]value); ok {
		if bd, ok := ud.(*types.Basic); ok && bd.Kind() == types.String {
			us := t_src.Underlying().(*types.Slice)
			if us.Elem().Underlying().(*types.Basic).Kind() == types.Byte {
				out := make([]value, len(sl))
				copy(out, sl)
				return mkStr(out)
			}
			panic(unsupported("string([]rune) with symbolic elements"))
		}
	}
	panic(unsupported(fmt.Sprintf("symConv %T %s -> %s", x, t_src, t_dst)))
}

func extendTo64(v symInt) string {
	bits := kindBits(v.k)
	if bits == 64 {
		return v.t
	}
	if kindSigned(v.k) {
		return fmt.Sprintf("((_ sign_extend %d) %s)", 64-bits, v.t)
	}
	return fmt.Sprintf("((_ zero_extend %d) %s)", 64-bits, v.t)
}

func convInt(st *pstate, v symInt, dst types.BasicKind) value {
	sb, db := kindBits(v.k), kindBits(dst)
	switch {
	case sb == db:
		return symInt{v.t, dst}
	case sb < db:
		if kindSigned(v.k) {
			return symInt{st.name(fmt.Sprintf("((_ sign_extend %d) %s)", db-sb, v.t), db), dst}
		}
		return symInt{st.name(fmt.Sprintf("((_ zero_extend %d) %s)", db-sb, v.t), db), dst}
	default:
		return symInt{st.name(fmt.Sprintf("((_ extract %d 0) %s)", db-1, v.t), db), dst}
	}
}

// symEqualsTerm is equals() producing a formula.
func symEqualsTerm(st *pstate, t types.Type, x, y value) string {
	if isStrVal(x) && isStrVal(y) {
		return strEqTerm(x, y)
	}
	switch xv := x.(type) {
	case symBool:
		return "(= " + xv.t + " " + boolTerm(y) + ")"
	case bool:
		if _, ok := y.(symBool); ok {
			return "(= " + boolTerm(x) + " " + boolTerm(y) + ")"
		}
	case structure:
		yv := y.(structure)
		cs := []string{}
		var ts *types.Struct
		if t != nil {
			ts, _ = t.Underlying().(*types.Struct)
		}
		for i := range xv {
			var ft types.Type
			if ts != nil {
				if ts.Field(i).Name() == "_" {
					continue
				}
				ft = ts.Field(i).Type()
			}
			cs = append(cs, symEqualsTerm(st, ft, xv[i], yv[i]))
		}
		return tAnd(cs...)
	case array:
		yv := y.(array)
		cs := []string{}
		var et types.Type
		if t != nil {
			if ta, ok := t.Underlying().(*types.Array); ok {
				et = ta.Elem()
			}
		}
		for i := range xv {
			cs = append(cs, symEqualsTerm(st, et, xv[i], yv[i]))
		}
		return tAnd(cs...)
	case iface:
		yv := y.(iface)
		if xv.t == nil || yv.t == nil {
			if xv.t == nil && yv.t == nil {
				return "true"
			}
			return "false"
		}
		if !sameType(xv.t, yv.t) {
			return "false"
		}
		return symEqualsTerm(st, xv.t, xv.v, yv.v)
	}
	if _, ok := kindOf(x); ok {
		if _, ok := kindOf(y); ok {
			a, b := intTerm(x), intTerm(y)
			if a == b {
				return "true"
			}
			if !isSym(x) && !isSym(y) {
				return "false"
			}
			return "(= " + a + " " + b + ")"
		}
	}
	if !containsSym(x) && !containsSym(y) {
		if equals(t, x, y) {
			return "true"
		}
		return "false"
	}
	panic(unsupported(fmt.Sprintf("symEquals %T %T", x, y)))
}
