// Copyright 2013 The Go Authors. All rights reserved.
// Use of this source code is governed by a BSD-style
// license that can be found in the LICENSE file.

// Package ssa/interp defines an interpreter for the SSA
// representation of Go programs.
//
// This interpreter is provided as an adjunct for testing the SSA
// construction algorithm.  Its purpose is to provide a minimal
// metacircular implementation of the dynamic semantics of each SSA
// instruction.  It is not, and will never be, a production-quality Go
// interpreter.
//
// The following is a partial list of Go features that are currently
// unsupported or incomplete in the interpreter.
//
// * Unsafe operations, including all uses of unsafe.Pointer, are
// impossible to support given the "boxed" value representation we
// have chosen.
//
// * The reflect package is only partially implemented.
//
// * The "testing" package is no longer supported because it
// depends on low-level details that change too often.
//
// * "sync/atomic" operations are not atomic due to the "boxed" value
// representation: it is not possible to read, modify and write an
// interface value atomically. As a consequence, Mutexes are currently
// broken.
//
// * recover is only partially implemented.  Also, the interpreter
// makes no attempt to distinguish target panics from interpreter
// crashes.
//
// * the sizes of the int, uint and uintptr types in the target
// program are assumed to be the same as those of the interpreter
// itself.
//
// * all values occupy space, even those of types defined by the spec
// to have zero size, e.g. struct{}.  This can cause asymptotic
// performance degradation.
//
// * os.Exit is implemented using panic, causing deferred functions to
// run.
package interp // import "golang.org/x/tools/go/ssa/interp"

import (
	"fmt"
	"go/token"
	"go/types"
	"log"
	"os"
	"reflect"
	"runtime"
	"slices"
	"strings"
	"sync"
	"sync/atomic"
	_ "unsafe"

	"golang.org/x/tools/go/ssa"
)

type continuation int

const (
	kNext continuation = iota
	kReturn
	kJump
)

// Mode is a bitmask of options affecting the interpreter.
type Mode uint

const (
	DisableRecover Mode = 1 << iota // Disable recover() in target programs; show interpreter crash instead.
	EnableTracing                   // Print a trace of all instructions as they are interpreted.
)

type methodSet map[string]*ssa.Function

// State shared between all interpreted goroutines.
type interpreter struct {
	osArgs             []value                // the value of os.Args
	prog               *ssa.Program           // the SSA program
	globals            map[*ssa.Global]*value // addresses of global variables (immutable)
	mode               Mode                   // interpreter options
	reflectPackage     *ssa.Package           // the fake reflect package
	errorMethods       methodSet              // the method set of reflect.error, which implements the error interface.
	rtypeMethods       methodSet              // the method set of rtype, which implements the reflect.Type interface.
	runtimeErrorString types.Type             // the runtime.errorString type
	sizes              types.Sizes            // the effective type-sizing function
	goroutines         int32                  // atomically updated

	sym       *pstate         // per-path symbolic state
	w         *worker         // owning worker
	initAllow map[string]bool // packages whose init may run
}

type deferred struct {
	fn    value
	args  []value
	instr *ssa.Defer
	tail  *deferred
}

type frame struct {
	i                *interpreter
	caller           *frame
	fn               *ssa.Function
	block, prevBlock *ssa.BasicBlock
	env              map[ssa.Value]value // dynamic values of SSA variables
	locals           []value
	defers           *deferred
	result           value
	panicking        bool
	panic            interface{}
	phitemps         []value // temporaries for parallel phi assignment
	cur              ssa.Instruction
}

func (fr *frame) get(key ssa.Value) value {
	switch key := key.(type) {
	case nil:
		// Hack; simplifies handling of optional attributes
		// such as ssa.Slice.{Low,High}.
		return nil
	case *ssa.Function, *ssa.Builtin:
		return key
	case *ssa.Const:
		return constValue(key)
	case *ssa.Global:
		if r, ok := fr.i.globals[key]; ok {
			return r
		}
	}
	if r, ok := fr.env[key]; ok {
		return r
	}
	panic(fmt.Sprintf("get: no value for %T: %v", key, key.Name()))
}

// runDefer runs a deferred call d.
// It always returns normally, but may set or clear fr.panic.
func (fr *frame) runDefer(d *deferred) {
	if fr.i.mode&EnableTracing != 0 {
		fmt.Fprintf(os.Stderr, "%s: invoking deferred function call\n",
			fr.i.prog.Fset.Position(d.instr.Pos()))
	}
	var ok bool
	defer func() {
		if !ok {
			// Deferred call created a new state of panic.
			fr.panicking = true
			fr.panic = recover()
		}
	}()
	call(fr.i, fr, d.instr.Pos(), d.fn, d.args)
	ok = true
}

// runDefers executes fr's deferred function calls in LIFO order.
//
// On entry, fr.panicking indicates a state of panic; if
// true, fr.panic contains the panic value.
//
// On completion, if a deferred call started a panic, or if no
// deferred call recovered from a previous state of panic, then
// runDefers itself panics after the last deferred call has run.
//
// If there was no initial state of panic, or it was recovered from,
// runDefers returns normally.
func (fr *frame) runDefers() {
	for d := fr.defers; d != nil; d = d.tail {
		fr.runDefer(d)
	}
	fr.defers = nil
	if fr.panicking {
		panic(fr.panic) // new panic, or still panicking
	}
}

// lookupMethod returns the method set for type typ, which may be one
// of the interpreter's fake types.
func lookupMethod(i *interpreter, typ types.Type, meth *types.Func) *ssa.Function {
	switch typ {
	case rtypeType:
		return i.rtypeMethods[meth.Id()]
	case errorType:
		return i.errorMethods[meth.Id()]
	}
	return i.prog.LookupMethod(typ, meth.Pkg(), meth.Name())
}

// visitInstr interprets a single ssa.Instruction within the activation
// record frame.  It returns a continuation value indicating where to
// read the next instruction from.
func visitInstr(fr *frame, instr ssa.Instruction) continuation {
	switch instr := instr.(type) {
	case *ssa.DebugRef:
		// no-op

	case *ssa.UnOp:
		x := fr.get(instr.X)
		if isSym(x) && instr.Op != token.MUL && instr.Op != token.ARROW {
			fr.env[instr] = symUnop(fr.i.sym, instr.Op, x)
		} else {
			fr.env[instr] = unop(instr, x)
		}

	case *ssa.BinOp:
		x, y := fr.get(instr.X), fr.get(instr.Y)
		if isSym(x) || isSym(y) || ((instr.Op == token.EQL || instr.Op == token.NEQ) && (containsSym(x) || containsSym(y))) {
			fr.env[instr] = symBinop(fr.i.sym, instr.Op, instr.X.Type(), x, y)
		} else {
			fr.env[instr] = binop(instr.Op, instr.X.Type(), x, y)
		}

	case *ssa.Call:
		fn, args := prepareCall(fr, &instr.Call)
		fr.env[instr] = call(fr.i, fr, instr.Pos(), fn, args)

	case *ssa.ChangeInterface:
		fr.env[instr] = fr.get(instr.X)

	case *ssa.ChangeType:
		fr.env[instr] = fr.get(instr.X) // (can't fail)

	case *ssa.Convert:
		x := fr.get(instr.X)
		if isSym(x) || sliceHasSym(x) {
			fr.env[instr] = symConv(fr.i.sym, instr.Type(), instr.X.Type(), x)
		} else {
			fr.env[instr] = conv(instr.Type(), instr.X.Type(), x)
		}

	case *ssa.SliceToArrayPointer:
		fr.env[instr] = sliceToArrayPointer(instr.Type(), instr.X.Type(), fr.get(instr.X))

	case *ssa.MakeInterface:
		fr.env[instr] = iface{t: instr.X.Type(), v: fr.get(instr.X)}

	case *ssa.Extract:
		fr.env[instr] = fr.get(instr.Tuple).(tuple)[instr.Index]

	case *ssa.Slice:
		fr.env[instr] = slice(fr.i.sym.concretize(fr.get(instr.X)), fr.i.sym.concInt(fr.get(instr.Low)), fr.i.sym.concInt(fr.get(instr.High)), fr.i.sym.concInt(fr.get(instr.Max)))

	case *ssa.Return:
		switch len(instr.Results) {
		case 0:
		case 1:
			fr.result = fr.get(instr.Results[0])
		default:
			var res []value
			for _, r := range instr.Results {
				res = append(res, fr.get(r))
			}
			fr.result = tuple(res)
		}
		fr.block = nil
		return kReturn

	case *ssa.RunDefers:
		fr.runDefers()

	case *ssa.Panic:
		panic(targetPanic{fr.get(instr.X)})

	case *ssa.Send:
		fr.get(instr.Chan).(chan value) <- fr.get(instr.X)

	case *ssa.Store:
		addr := fr.get(instr.Addr).(*value)
		fr.i.sym.checkStore(fr, instr, addr)
		store(mustDeref(instr.Addr.Type()), addr, fr.get(instr.Val))

	case *ssa.If:
		succ := 1
		cond := fr.get(instr.Cond)
		if sb, ok := cond.(symBool); ok {
			cond = fr.i.sym.branch(sb.t)
		}
		if cond.(bool) {
			succ = 0
		}
		fr.prevBlock, fr.block = fr.block, fr.block.Succs[succ]
		return kJump

	case *ssa.Jump:
		fr.prevBlock, fr.block = fr.block, fr.block.Succs[0]
		return kJump

	case *ssa.Defer:
		fn, args := prepareCall(fr, &instr.Call)
		defers := &fr.defers
		if into := fr.get(instr.DeferStack); into != nil {
			defers = into.(**deferred)
		}
		*defers = &deferred{
			fn:    fn,
			args:  args,
			instr: instr,
			tail:  *defers,
		}

	case *ssa.Go:
		panic(unsupported("go statement (concurrency is outside every claim)"))
		fn, args := prepareCall(fr, &instr.Call)
		atomic.AddInt32(&fr.i.goroutines, 1)
		go func() {
			call(fr.i, nil, instr.Pos(), fn, args)
			atomic.AddInt32(&fr.i.goroutines, -1)
		}()

	case *ssa.MakeChan:
		fr.env[instr] = make(chan value, asInt64(fr.get(instr.Size)))

	case *ssa.Alloc:
		var addr *value
		if instr.Heap {
			// new
			addr = new(value)
			fr.env[instr] = addr
		} else {
			// local
			addr = fr.env[instr].(*value)
		}
		*addr = zero(mustDeref(instr.Type()))

	case *ssa.MakeSlice:
		slice := make([]value, asInt64(fr.i.sym.concInt(fr.get(instr.Cap))))
		tElt := instr.Type().Underlying().(*types.Slice).Elem()
		for i := range slice {
			slice[i] = zero(tElt)
		}
		fr.env[instr] = slice[:asInt64(fr.i.sym.concInt(fr.get(instr.Len)))]

	case *ssa.MakeMap:
		var reserve int64
		if instr.Reserve != nil {
			reserve = asInt64(fr.get(instr.Reserve))
		}
		if !fitsInt(reserve, fr.i.sizes) {
			panic(fmt.Sprintf("ssa.MakeMap.Reserve value %d does not fit in int", reserve))
		}
		fr.env[instr] = makeMap(instr.Type().Underlying().(*types.Map).Key(), reserve)

	case *ssa.Range:
		fr.env[instr] = fr.i.sym.rangeIter(fr, instr, fr.get(instr.X))

	case *ssa.Next:
		fr.env[instr] = fr.get(instr.Iter).(iter).next()

	case *ssa.FieldAddr:
		fr.env[instr] = &(*fr.get(instr.X).(*value)).(structure)[instr.Field]

	case *ssa.Field:
		fr.env[instr] = fr.get(instr.X).(structure)[instr.Field]

	case *ssa.IndexAddr:
		x := fr.get(instr.X)
		idx := fr.i.sym.indexSplit(x, fr.get(instr.Index))
		switch x := x.(type) {
		case []value:
			fr.env[instr] = &x[asInt64(idx)]
		case *value: // *array
			fr.env[instr] = &(*x).(array)[asInt64(idx)]
		default:
			panic(fmt.Sprintf("unexpected x type in IndexAddr: %T", x))
		}

	case *ssa.Index:
		x := fr.get(instr.X)
		idx := fr.i.sym.indexSplit(x, fr.get(instr.Index))

		switch x := x.(type) {
		case array:
			fr.env[instr] = x[asInt64(idx)]
		case string:
			fr.env[instr] = x[asInt64(idx)]
		case symStr:
			fr.env[instr] = x.b[asInt64(idx)]
		default:
			panic(fmt.Sprintf("unexpected x type in Index: %T", x))
		}

	case *ssa.Lookup:
		x, idx := fr.get(instr.X), fr.get(instr.Index)
		if isStrVal(x) {
			// string indexing s[i] (Lookup is used for strings with non-constant index)
			i := asInt64(fr.i.sym.concInt(idx))
			switch s := x.(type) {
			case string:
				fr.env[instr] = s[i]
			case symStr:
				fr.env[instr] = s.b[i]
			}
		} else {
			if m, ok := x.(map[value]value); ok {
				idx, _ = fr.i.sym.resolveKey(m, idx)
			}
			fr.env[instr] = lookup(instr, x, idx)
		}

	case *ssa.MapUpdate:
		m := fr.get(instr.Map)
		key := fr.get(instr.Key)
		v := fr.get(instr.Value)
		fr.i.sym.checkMapWrite(fr, m)
		switch m := m.(type) {
		case map[value]value:
			var present bool
			key, present = fr.i.sym.resolveKey(m, key)
			if !present {
				fr.i.sym.noteInsert(m, key)
			}
			m[key] = v
		case *hashmap:
			m.insert(key.(hashable), v)
		default:
			panic(fmt.Sprintf("illegal map type: %T", m))
		}

	case *ssa.TypeAssert:
		fr.env[instr] = typeAssert(fr.i, instr, fr.get(instr.X).(iface))

	case *ssa.MakeClosure:
		var bindings []value
		for _, binding := range instr.Bindings {
			bindings = append(bindings, fr.get(binding))
		}
		fr.env[instr] = &closure{instr.Fn.(*ssa.Function), bindings}

	case *ssa.Phi:
		log.Fatal("unreachable") // phis are processed at block entry

	case *ssa.Select:
		var cases []reflect.SelectCase
		if !instr.Blocking {
			cases = append(cases, reflect.SelectCase{
				Dir: reflect.SelectDefault,
			})
		}
		for _, state := range instr.States {
			var dir reflect.SelectDir
			if state.Dir == types.RecvOnly {
				dir = reflect.SelectRecv
			} else {
				dir = reflect.SelectSend
			}
			var send reflect.Value
			if state.Send != nil {
				send = reflect.ValueOf(fr.get(state.Send))
			}
			cases = append(cases, reflect.SelectCase{
				Dir:  dir,
				Chan: reflect.ValueOf(fr.get(state.Chan)),
				Send: send,
			})
		}
		chosen, recv, recvOk := reflect.Select(cases)
		if !instr.Blocking {
			chosen-- // default case should have index -1.
		}
		r := tuple{chosen, recvOk}
		for i, st := range instr.States {
			if st.Dir == types.RecvOnly {
				var v value
				if i == chosen && recvOk {
					// No need to copy since send makes an unaliased copy.
					v = recv.Interface().(value)
				} else {
					v = zero(st.Chan.Type().Underlying().(*types.Chan).Elem())
				}
				r = append(r, v)
			}
		}
		fr.env[instr] = r

	default:
		panic(fmt.Sprintf("unexpected instruction: %T", instr))
	}

	// if val, ok := instr.(ssa.Value); ok {
	// 	fmt.Println(toString(fr.env[val])) // debugging
	// }

	return kNext
}

// prepareCall determines the function value and argument values for a
// function call in a Call, Go or Defer instruction, performing
// interface method lookup if needed.
func prepareCall(fr *frame, call *ssa.CallCommon) (fn value, args []value) {
	v := fr.get(call.Value)
	if call.Method == nil {
		// Function call.
		fn = v
	} else {
		// Interface method invocation.
		recv := v.(iface)
		if recv.t == nil {
			panic("method invoked on nil interface")
		}
		if f := lookupMethod(fr.i, recv.t, call.Method); f == nil {
			// Unreachable in well-typed programs.
			panic(fmt.Sprintf("method set for dynamic type %v does not contain %s", recv.t, call.Method))
		} else {
			fn = f
		}
		args = append(args, recv.v)
	}
	for _, arg := range call.Args {
		args = append(args, fr.get(arg))
	}
	return
}

// call interprets a call to a function (function, builtin or closure)
// fn with arguments args, returning its result.
// callpos is the position of the callsite.
func call(i *interpreter, caller *frame, callpos token.Pos, fn value, args []value) value {
	switch fn := fn.(type) {
	case *ssa.Function:
		if fn == nil {
			panic("call of nil function") // nil of func type
		}
		return callSSA(i, caller, callpos, fn, args, nil)
	case *closure:
		return callSSA(i, caller, callpos, fn.Fn, args, fn.Env)
	case *ssa.Builtin:
		return callBuiltin(caller, callpos, fn, args)
	}
	panic(fmt.Sprintf("cannot call %T", fn))
}

func loc(fset *token.FileSet, pos token.Pos) string {
	if pos == token.NoPos {
		return ""
	}
	return " at " + fset.Position(pos).String()
}

// callSSA interprets a call to function fn with arguments args,
// and lexical environment env, returning its result.
// callpos is the position of the callsite.
var builtPkgs sync.Map // *ssa.Package -> true once Build has returned

func callSSA(i *interpreter, caller *frame, callpos token.Pos, fn *ssa.Function, args []value, env []value) value {
	if i.mode&EnableTracing != 0 {
		fset := fn.Prog.Fset
		// TODO(adonovan): fix: loc() lies for external functions.
		fmt.Fprintf(os.Stderr, "Entering %s%s.\n", fn, loc(fset, fn.Pos()))
		suffix := ""
		if caller != nil {
			suffix = ", resuming " + caller.fn.String() + loc(fset, callpos)
		}
		defer fmt.Fprintf(os.Stderr, "Leaving %s%s.\n", fn, suffix)
	}
	fr := &frame{
		i:      i,
		caller: caller, // for panic/recover
		fn:     fn,
	}
	if fn.Parent() == nil {
		if fn.Pkg != nil && fn.Signature.Recv() == nil && (fn.Name() == "init" || strings.HasPrefix(fn.Name(), "init#")) {
			if !i.initAllow[fn.Pkg.Pkg.Path()] {
				return nil
			}
		}
		name := fn.String()
		if r, handled := i.sym.intercept(fr, name, fn, args); handled {
			return r
		}
		if fn.Pkg != nil {
			// on-demand SSA construction.  Build is idempotent and blocks until the package is complete;
			// it must be awaited even when fn.Blocks is already non-nil, because another worker may be in
			// the middle of building (and lifting) exactly this function.
			if _, done := builtPkgs.Load(fn.Pkg); !done {
				fn.Pkg.Build()
				builtPkgs.Store(fn.Pkg, true)
			}
		}
		if fn.Blocks == nil {
			panic(unsupported("no code for function: " + name))
		}
	}
	i.sym.depth++
	if i.sym.depth > i.sym.ex.Cfg.MaxDepth {
		panic(engineAbort{"unwind", "call depth exceeded in " + fn.String()})
	}
	defer func() { i.sym.depth-- }()

	// generic function body?
	if fn.TypeParams().Len() > 0 && len(fn.TypeArgs()) == 0 {
		panic("interp requires ssa.BuilderMode to include InstantiateGenerics to execute generics")
	}

	fr.env = make(map[ssa.Value]value)
	fr.block = fn.Blocks[0]
	fr.locals = make([]value, len(fn.Locals))
	for i, l := range fn.Locals {
		fr.locals[i] = zero(mustDeref(l.Type()))
		fr.env[l] = &fr.locals[i]
	}
	for i, p := range fn.Params {
		fr.env[p] = args[i]
	}
	for i, fv := range fn.FreeVars {
		fr.env[fv] = env[i]
	}
	for fr.block != nil {
		runFrame(fr)
	}
	// Destroy the locals to avoid accidental use after return.
	for i := range fn.Locals {
		fr.locals[i] = bad{}
	}
	return fr.result
}

// runFrame executes SSA instructions starting at fr.block and
// continuing until a return, a panic, or a recovered panic.
//
// After a panic, runFrame panics.
//
// After a normal return, fr.result contains the result of the call
// and fr.block is nil.
//
// A recovered panic in a function without named return parameters
// (NRPs) becomes a normal return of the zero value of the function's
// result type.
//
// After a recovered panic in a function with NRPs, fr.result is
// undefined and fr.block contains the block at which to resume
// control.
func runFrame(fr *frame) {
	defer func() {
		if fr.block == nil {
			return // normal return
		}
		if fr.i.mode&DisableRecover != 0 {
			return // let interpreter crash
		}
		r := recover()
		if ea, ok := r.(engineAbort); ok {
			panic(ea)
		}
		if fr.i.sym.panicSite == "" {
			fr.i.sym.panicSite = fr.fn.String()
			if fr.cur != nil {
				fr.i.sym.panicStack = fr.i.prog.Fset.Position(fr.cur.Pos()).String()
			}
		}
		fr.panicking = true
		fr.panic = r
		if fr.i.mode&EnableTracing != 0 {
			fmt.Fprintf(os.Stderr, "Panicking: %T %v.\n", fr.panic, fr.panic)
		}
		fr.runDefers()
		fr.block = fr.fn.Recover
	}()

	for {
		if fr.i.mode&EnableTracing != 0 {
			fmt.Fprintf(os.Stderr, ".%s:\n", fr.block)
		}

		nonPhis := executePhis(fr)
		fr.i.w.funcs[fr.fn] += len(nonPhis)
		for _, instr := range nonPhis {
			if fr.i.mode&EnableTracing != 0 {
				if v, ok := instr.(ssa.Value); ok {
					fmt.Fprintln(os.Stderr, "\t", v.Name(), "=", instr)
				} else {
					fmt.Fprintln(os.Stderr, "\t", instr)
				}
			}
			fr.cur = instr
			fr.i.sym.tick(fr)
			if visitInstr(fr, instr) == kReturn {
				return
			}
			// Inv: kNext (continue) or kJump (last instr)
		}
	}
}

// executePhis executes the phi-nodes at the start of the current
// block and returns the non-phi instructions.
func executePhis(fr *frame) []ssa.Instruction {
	firstNonPhi := -1
	for i, instr := range fr.block.Instrs {
		if _, ok := instr.(*ssa.Phi); !ok {
			firstNonPhi = i
			break
		}
	}
	// Inv: 0 <= firstNonPhi; every block contains a non-phi.

	nonPhis := fr.block.Instrs[firstNonPhi:]
	if firstNonPhi > 0 {
		phis := fr.block.Instrs[:firstNonPhi]
		// Execute parallel assignment of phis.
		//
		// See "the swap problem" in Briggs et al's "Practical Improvements
		// to the Construction and Destruction of SSA Form" for discussion.
		predIndex := slices.Index(fr.block.Preds, fr.prevBlock)
		fr.phitemps = fr.phitemps[:0]
		for _, phi := range phis {
			phi := phi.(*ssa.Phi)
			if fr.i.mode&EnableTracing != 0 {
				fmt.Fprintln(os.Stderr, "\t", phi.Name(), "=", phi)
			}
			fr.phitemps = append(fr.phitemps, fr.get(phi.Edges[predIndex]))
		}
		for i, phi := range phis {
			fr.env[phi.(*ssa.Phi)] = fr.phitemps[i]
		}
	}
	return nonPhis
}

// doRecover implements the recover() built-in.
func doRecover(caller *frame) value {
	// recover() must be exactly one level beneath the deferred
	// function (two levels beneath the panicking function) to
	// have any effect.  Thus we ignore both "defer recover()" and
	// "defer f() -> g() -> recover()".
	if caller.i.mode&DisableRecover == 0 &&
		caller != nil && !caller.panicking &&
		caller.caller != nil && caller.caller.panicking {
		caller.caller.panicking = false
		p := caller.caller.panic
		caller.caller.panic = nil

		// TODO(adonovan): support runtime.Goexit.
		caller.i.sym.panicSite = ""
		switch p := p.(type) {
		case targetRT:
			return iface{caller.i.runtimeErrorString, "runtime error: " + p.msg}
		case targetPanic:
			// The target program explicitly called panic().
			return p.v
		case runtime.Error:
			// The interpreter encountered a runtime error.
			return iface{caller.i.runtimeErrorString, p.Error()}
		case string:
			// The interpreter explicitly called panic().
			return iface{caller.i.runtimeErrorString, p}
		default:
			panic(fmt.Sprintf("unexpected panic type %T in target call to recover()", p))
		}
	}
	return iface{}
}

func mustDeref(t types.Type) types.Type {
	if p, ok := t.Underlying().(*types.Pointer); ok {
		return p.Elem()
	}
	panic("not a pointer: " + t.String())
}
