package interp

// Canonical serialisation of the live state for pruning at schedule choice
// points: everything reachable from the frames plus the remaining keys of the
// active iterators plus the path condition hash.

import (
	"crypto/sha256"
	"fmt"
	"sort"
	"strings"

	"golang.org/x/tools/go/ssa"
)

type ser struct {
	sb   strings.Builder
	ptrs map[*value]int
	its  map[*choiceIter]int
	maps map[uintptr]int
	st   *pstate
}

func (s *ser) val(v value) {
	switch x := v.(type) {
	case nil:
		s.sb.WriteString("nil;")
	case *value:
		if x == nil {
			s.sb.WriteString("p0;")
			return
		}
		if id, ok := s.ptrs[x]; ok {
			fmt.Fprintf(&s.sb, "p#%d;", id)
			return
		}
		id := len(s.ptrs) + 1
		s.ptrs[x] = id
		fmt.Fprintf(&s.sb, "p%d{", id)
		s.val(*x)
		s.sb.WriteString("}")
	case structure:
		s.sb.WriteString("S(")
		for _, e := range x {
			s.val(e)
		}
		s.sb.WriteString(")")
	case array:
		s.sb.WriteString("A(")
		for _, e := range x {
			s.val(e)
		}
		s.sb.WriteString(")")
	case tuple:
		s.sb.WriteString("T(")
		for _, e := range x {
			s.val(e)
		}
		s.sb.WriteString(")")
	case []value:
		fmt.Fprintf(&s.sb, "L%d/%d(", len(x), cap(x))
		for _, e := range x {
			s.val(e)
		}
		s.sb.WriteString(")")
	case iface:
		s.sb.WriteString("I[")
		if x.t != nil {
			s.sb.WriteString(x.t.String())
		}
		s.sb.WriteString("](")
		s.val(x.v)
		s.sb.WriteString(")")
	case map[value]value:
		if x == nil {
			s.sb.WriteString("M0;")
			return
		}
		id := mapID(x)
		if n, ok := s.maps[id]; ok {
			fmt.Fprintf(&s.sb, "M#%d;", n)
			return
		}
		s.maps[id] = len(s.maps) + 1
		o := s.st.ordOf(x)
		keys := make([]value, 0, len(x))
		seen := map[value]bool{}
		allStr := true
		for _, k := range o.keys {
			if _, ok := x[k]; ok && !seen[k] {
				seen[k] = true
				keys = append(keys, k)
				if _, ok := k.(string); !ok {
					allStr = false
				}
			}
		}
		if allStr && s.st.ex.Cfg.Sched == "all" {
			sort.Slice(keys, func(i, j int) bool { return keys[i].(string) < keys[j].(string) })
		}
		s.sb.WriteString("M(")
		for _, k := range keys {
			s.val(k)
			s.sb.WriteString("=>")
			s.val(x[k])
		}
		s.sb.WriteString(")")
	case *hashmap:
		s.sb.WriteString("HM(")
		if x != nil {
			for _, e := range x.ordered() {
				s.val(e.key)
				s.sb.WriteString("=>")
				s.val(e.value)
			}
		}
		s.sb.WriteString(")")
	case *closure:
		s.sb.WriteString("C[" + x.Fn.String() + "](")
		for _, e := range x.Env {
			s.val(e)
		}
		s.sb.WriteString(")")
	case *ssa.Function:
		if x == nil {
			s.sb.WriteString("F0;")
		} else {
			s.sb.WriteString("F[" + x.String() + "];")
		}
	case *choiceIter:
		if id, ok := s.its[x]; ok {
			fmt.Fprintf(&s.sb, "it#%d;", id)
			return
		}
		s.its[x] = len(s.its) + 1
		s.sb.WriteString("IT[" + x.policy + "](")
		s.val(x.m)
		if x.ord != nil {
			var rem []string
			for i, k := range x.ord.keys {
				if i < x.n0 && !x.done[i] {
					if _, ok := x.m[k]; ok {
						rem = append(rem, toString(k))
					}
				}
			}
			if x.policy == "all" {
				sort.Strings(rem)
			}
			s.sb.WriteString(strings.Join(rem, ","))
			fmt.Fprintf(&s.sb, "|%v|%d", x.perm, x.pos)
		}
		s.sb.WriteString(")")
	case symInt:
		s.sb.WriteString("si:" + x.t + ";")
	case symBool:
		s.sb.WriteString("sB:" + x.t + ";")
	case symF:
		s.sb.WriteString("sf:" + x.t + ";")
	case symStr:
		s.sb.WriteString("ss(")
		for _, e := range x.b {
			s.val(e)
		}
		s.sb.WriteString(")")
	case string:
		fmt.Fprintf(&s.sb, "%q;", x)
	default:
		fmt.Fprintf(&s.sb, "%T:%v;", v, v)
	}
}

func stateHash(fr *frame, st *pstate) [32]byte {
	s := &ser{ptrs: map[*value]int{}, its: map[*choiceIter]int{}, maps: map[uintptr]int{}, st: st}
	s.sb.Write(st.pcHash[:])
	fmt.Fprintf(&s.sb, "ulid=%d;", st.ulid)
	// input decisions so far (the model family member) are part of the state
	s.sb.WriteString(st.inputKey())
	for f := fr; f != nil; f = f.caller {
		s.sb.WriteString("\nFRAME " + f.fn.String())
		if f.block != nil {
			fmt.Fprintf(&s.sb, " b%d", f.block.Index)
		}
		put := func(v ssa.Value) {
			if x, ok := f.env[v]; ok {
				s.sb.WriteString(" " + v.Name() + "=")
				s.val(x)
			}
		}
		for _, p := range f.fn.Params {
			put(p)
		}
		for _, p := range f.fn.FreeVars {
			put(p)
		}
		for _, b := range f.fn.Blocks {
			for _, in := range b.Instrs {
				if v, ok := in.(ssa.Value); ok {
					put(v)
				}
			}
		}
		for d := f.defers; d != nil; d = d.tail {
			s.sb.WriteString(" defer;")
		}
	}
	// globals of the package under test
	for _, p := range st.w.resetPkgs {
		names := make([]string, 0)
		for n, m := range p.Members {
			if _, ok := m.(*ssa.Global); ok {
				names = append(names, n)
			}
		}
		sort.Strings(names)
		for _, n := range names {
			g := p.Members[n].(*ssa.Global)
			s.sb.WriteString("\nG " + n + "=")
			s.val(st.w.i.globals[g])
		}
	}
	return sha256.Sum256([]byte(s.sb.String()))
}
