// gosymx: symbolic executor for the hand-written Go code of openfga/language.
//
//	gosymx run -spec jobs.json -out results.json
//
// The program under test is loaded from /repo/pkg/go (current working tree) on
// every run, with the harness sources overlaid into the packages under test.
package main

import (
	"encoding/json"
	"flag"
	"fmt"
	"go/ast"
	"go/token"
	"os"
	"path/filepath"
	"runtime"
	"runtime/debug"
	"runtime/pprof"
	"sort"
	"strconv"
	"strings"
	"time"

	"gosymx/interp"

	"golang.org/x/tools/go/packages"
	"golang.org/x/tools/go/ssa"
	"golang.org/x/tools/go/ssa/ssautil"
)

type Job struct {
	Pkg        string            `json:"pkg"` // transformer | graph | utils | validation
	Harness    string            `json:"harness"`
	Workers    int               `json:"workers"`
	Params     map[string]int    `json:"params"`
	Sched      string            `json:"sched"`
	SchedFuncs []string          `json:"sched_funcs"`
	SchedScope []string          `json:"sched_scope"`
	SchedDeps  []string          `json:"sched_deps"`
	SchedOther string            `json:"sched_other"`
	Prune      bool              `json:"prune"`
	MaxPaths   int               `json:"max_paths"`
	MaxSteps   int               `json:"max_steps"`
	DeadlineS  float64           `json:"deadline_s"`
	TimeoutMs  int               `json:"timeout_ms"`
	Warmup     string            `json:"warmup"`
	InitAllow  []string          `json:"init_allow"`
	Solver     string            `json:"solver"`
	Transcript string            `json:"transcript"`
	Concrete   bool              `json:"concrete"`
	Witness    *interp.Witness   `json:"witness"`
	MapOrder   string            `json:"map_order"`
	Redirects  map[string]string `json:"redirects"`
	NoSkipGuard bool             `json:"no_skip_guard"`
	SampleWitnesses int          `json:"sample_witnesses"`
	RecordAsserts int            `json:"record_asserts"`
}

type Spec struct {
	RepoDir    string `json:"repo_dir"`    // /repo/pkg/go
	HarnessDir string `json:"harness_dir"` // /verif/harness
	Tags       string `json:"tags"`
	Jobs       []Job  `json:"jobs"`
	// ExtraOverlay maps a source path (e.g. a file of a dependency in the module
	// cache) to a replacement file: the native-interception hooks (DESIGN 4.2).
	ExtraOverlay map[string]string `json:"extra_overlay"`
}

type Out struct {
	LoadSec  float64          `json:"load_s"`
	Packages int              `json:"packages"`
	Results  []*interp.Result `json:"results"`
	Errors   []string         `json:"errors"`
	Sources  map[string]string `json:"source_hashes"`
}

const modPath = "github.com/openfga/language/pkg/go"

func main() {
	if len(os.Args) < 2 || os.Args[1] != "run" {
		fmt.Fprintln(os.Stderr, "usage: gosymx run -spec jobs.json -out results.json")
		os.Exit(2)
	}
	fs := flag.NewFlagSet("run", flag.ExitOnError)
	specPath := fs.String("spec", "", "job specification (JSON)")
	outPath := fs.String("out", "", "result file (JSON)")
	fs.Parse(os.Args[2:])
	var spec Spec
	data, err := os.ReadFile(*specPath)
	if err != nil {
		fatal(err)
	}
	if err := json.Unmarshal(data, &spec); err != nil {
		fatal(err)
	}
	if spec.RepoDir == "" {
		spec.RepoDir = "/repo/pkg/go"
	}
	if spec.HarnessDir == "" {
		spec.HarnessDir = "/verif/harness"
	}
	out := &Out{Sources: map[string]string{}}
	runtime.GOMAXPROCS(2) // page-fault contention while loading (DESIGN 2.5)
	t0 := time.Now()
	overlay := map[string][]byte{}
	redirects := map[string]map[string]string{} // pkg -> callee -> harness fn
	pkgSet := map[string]bool{}
	for _, j := range spec.Jobs {
		pkgSet[j.Pkg] = true
	}
	entries, _ := os.ReadDir(spec.HarnessDir)
	for _, e := range entries {
		if !e.IsDir() {
			continue
		}
		files, _ := filepath.Glob(filepath.Join(spec.HarnessDir, e.Name(), "*.go"))
		for _, f := range files {
			if strings.HasSuffix(f, "_test.go") {
				continue
			}
			src, err := os.ReadFile(f)
			if err != nil {
				fatal(err)
			}
			base := filepath.Base(f)
			var virt string
			if e.Name() == "zzverif" {
				virt = filepath.Join(spec.RepoDir, "zzverif", base)
			} else {
				virt = filepath.Join(spec.RepoDir, e.Name(), "zz_verif_"+base)
			}
			overlay[virt] = src
			for _, line := range strings.Split(string(src), "\n") {
				if strings.HasPrefix(line, "//verif:redirect ") {
					f := strings.Fields(line)
					if len(f) == 3 {
						if redirects[e.Name()] == nil {
							redirects[e.Name()] = map[string]string{}
						}
						redirects[e.Name()][f[1]] = f[2]
					}
				}
			}
		}
	}
	for virt, real := range spec.ExtraOverlay {
		src, err := os.ReadFile(real)
		if err != nil {
			fatal(err)
		}
		overlay[virt] = src
	}
	cfg := &packages.Config{Mode: packages.LoadAllSyntax, Dir: spec.RepoDir,
		Env:     append(os.Environ(), "GOFLAGS=-mod=mod", "GOPROXY=off", "GOSUMDB=off", "GOTOOLCHAIN=local"),
		Overlay: overlay}
	if spec.Tags != "" {
		cfg.BuildFlags = []string{"-tags", spec.Tags}
	}
	patterns := []string{"./zzverif"}
	for p := range pkgSet {
		patterns = append(patterns, "./"+p)
	}
	sort.Strings(patterns)
	pkgs, err := packages.Load(cfg, patterns...)
	if err != nil {
		fatal(err)
	}
	nerr := 0
	packages.Visit(pkgs, nil, func(p *packages.Package) {
		for _, e := range p.Errors {
			out.Errors = append(out.Errors, e.Error())
			nerr++
		}
	})
	if nerr > 0 {
		writeOut(*outPath, out)
		fmt.Fprintln(os.Stderr, "load errors:", strings.Join(out.Errors, "\n"))
		os.Exit(3)
	}
	// enum name tables from generated sources (stub for protobuf enum String())
	packages.Visit(pkgs, nil, func(p *packages.Package) {
		if !strings.HasPrefix(p.PkgPath, "github.com/openfga/api/proto/openfga/v1") {
			return
		}
		for _, f := range p.Syntax {
			for _, d := range f.Decls {
				gd, ok := d.(*ast.GenDecl)
				if !ok || gd.Tok != token.VAR {
					continue
				}
				for _, s := range gd.Specs {
					vs := s.(*ast.ValueSpec)
					for i, n := range vs.Names {
						if !strings.HasSuffix(n.Name, "_name") || i >= len(vs.Values) {
							continue
						}
						cl, ok := vs.Values[i].(*ast.CompositeLit)
						if !ok {
							continue
						}
						table := map[int64]string{}
						for _, el := range cl.Elts {
							kv, ok := el.(*ast.KeyValueExpr)
							if !ok {
								continue
							}
							kl, ok1 := kv.Key.(*ast.BasicLit)
							vl, ok2 := kv.Value.(*ast.BasicLit)
							if ok1 && ok2 {
								k, _ := strconv.ParseInt(kl.Value, 10, 64)
								v, _ := strconv.Unquote(vl.Value)
								table[k] = v
							}
						}
						tname := p.PkgPath + "." + strings.TrimSuffix(n.Name, "_name")
						interp.EnumNames[tname] = table
					}
				}
			}
		}
	})
	interp.RegisterEnumStringers()
	prog, _ := ssautil.AllPackages(pkgs, ssa.InstantiateGenerics)
	// SSA bodies are built on demand (first call into a package), see interp.callSSA:
	// only the packages under test are built eagerly
	for _, p := range prog.AllPackages() {
		if strings.HasPrefix(p.Pkg.Path(), modPath) {
			p.Build()
		}
	}
	out.LoadSec = time.Since(t0).Seconds()
	out.Packages = len(prog.AllPackages())
	pkgs = nil
	runtime.GC()
	var ms runtime.MemStats
	runtime.ReadMemStats(&ms)
	fmt.Fprintf(os.Stderr, "gosymx: live heap after load %d MB\n", ms.HeapInuse>>20)
	fmt.Fprintf(os.Stderr, "gosymx: loaded %d packages in %.1fs\n", out.Packages, out.LoadSec)
	runtime.GOMAXPROCS(runtime.NumCPU())
	gcp := 400
	if v := os.Getenv("VERIF_GOGC"); v != "" {
		gcp, _ = strconv.Atoi(v)
	}
	debug.SetGCPercent(gcp)

	if pf := os.Getenv("VERIF_PROF"); pf != "" {
		f, _ := os.Create(pf)
		pprof.StartCPUProfile(f)
		defer pprof.StopCPUProfile()
	}
	byPath := map[string]*ssa.Package{}
	for _, p := range prog.AllPackages() {
		byPath[p.Pkg.Path()] = p
	}
	for _, j := range spec.Jobs {
		sp := byPath[modPath+"/"+j.Pkg]
		if sp == nil {
			out.Errors = append(out.Errors, "no package "+j.Pkg)
			continue
		}
		red := map[string]string{}
		for k, v := range redirects[j.Pkg] {
			red[k] = v
		}
		for k, v := range j.Redirects {
			red[k] = v
		}
		allow := append([]string{}, j.InitAllow...)
		for _, a := range []string{"errors", "transformer", "graph", "utils", "validation", "gen", "zzverif"} {
			allow = append(allow, modPath+"/"+a)
		}
		allow = append(allow, "github.com/antlr4-go/antlr/v4", "github.com/hashicorp/go-multierror", "github.com/openfga/api/proto/openfga/v1")
		// std packages whose package-level tables interpreted code relies on (their init is plain
		// Go; init of runtime/reflect-level packages stays skipped)
		allow = append(allow, "strings", "bytes", "unicode", "unicode/utf8", "strconv", "sort", "slices", "net/url", "path", "math/bits", "io")
		ex := &interp.Explorer{Prog: prog, Pkg: sp, Cfg: interp.Config{
			Harness: j.Harness, Workers: j.Workers, SolverBin: j.Solver, TimeoutMs: j.TimeoutMs,
			MaxPaths: j.MaxPaths, MaxSteps: j.MaxSteps, Deadline: time.Duration(j.DeadlineS * float64(time.Second)),
			Sched: j.Sched, SchedFuncs: j.SchedFuncs, SchedScope: j.SchedScope, SchedDeps: j.SchedDeps, SchedOther: j.SchedOther, Prune: j.Prune,
			Params: j.Params, Redirects: red, InitAllow: allow, Warmup: j.Warmup, Transcript: j.Transcript,
			RepoPrefix: modPath, Concrete: j.Concrete, Witness: j.Witness, MapOrder: j.MapOrder, NoSkipGuard: j.NoSkipGuard, SampleWitnesses: j.SampleWitnesses, RecordAsserts: j.RecordAsserts,
		}}
		r := ex.Run()
		// keep only functions of the code under test and selected std packages in the report
		keep := map[string]int{}
		for f, n := range r.Funcs {
			if strings.Contains(f, "zzverif") || strings.Contains(f, "Verif") || strings.Contains(f, "verif") {
				continue
			}
			if strings.Contains(f, "openfga/language") || strings.Contains(f, "net/url") || strings.Contains(f, "go-multierror") || strings.Contains(f, "antlr") || strings.Contains(f, "gonum.org/") {
				keep[f] = n
			}
		}
		r.Funcs = keep
		out.Results = append(out.Results, r)
		fmt.Fprintf(os.Stderr, "gosymx: %s paths=%d ends=%v viol=%d inconcl=%d solver=%d (%.1fs) wall=%.1fs exhaustive=%v\n",
			j.Harness, r.Paths, r.Ends, len(r.Violations), len(r.Inconcl), r.SolverCalls, r.SolverSec, r.WallSec, r.Exhaustive)
	}
	writeOut(*outPath, out)
}

func writeOut(path string, out *Out) {
	data, _ := json.MarshalIndent(out, "", " ")
	if path == "" {
		os.Stdout.Write(data)
		return
	}
	if err := os.WriteFile(path, data, 0o644); err != nil {
		fatal(err)
	}
}

func fatal(err error) {
	fmt.Fprintln(os.Stderr, "gosymx:", err)
	os.Exit(2)
}
