#!/usr/bin/env python3
"""Driver of the /verif checks:  check.py <ID> [--tier quick|thorough]   |   check.py --replay <witness.json>

Exit 0: the property held on everything explored (KNOWN-FINDING / INCONCLUSIVE / UNCONFIRMED lines possible).
Exit 1: a reproduced violation that known_findings.json does not list  ("VIOLATION property=<id> replay=<path>").
Exit 2: engine error (load failure, vacuous harness) - never used for a property violation.
"""
import hashlib
import json
import os
import shutil
import subprocess
import sys
import tempfile
import time

VERIF = os.path.dirname(os.path.abspath(__file__))
REPO = os.environ.get("VERIF_REPO", "/repo")
REPO_GO = os.path.join(REPO, "pkg/go")
HARNESS = os.path.join(VERIF, "harness")
GOSYMX = os.path.join(VERIF, "bin", "gosymx")
GOENV = dict(os.environ, GOFLAGS="-mod=mod", GOPROXY="off", GOSUMDB="off", GOTOOLCHAIN="local")
NCPU = os.cpu_count() or 4

sys.path.insert(0, VERIF)


def log(*a):
    print(*a, flush=True)


def load_known():
    p = os.path.join(VERIF, "known_findings.json")
    if not os.path.exists(p):
        return []
    return json.load(open(p)).get("findings", [])


def ensure_engine():
    src_mtime = 0
    for root, _, files in os.walk(os.path.join(VERIF, "engine")):
        for f in files:
            src_mtime = max(src_mtime, os.path.getmtime(os.path.join(root, f)))
    if not os.path.exists(GOSYMX) or os.path.getmtime(GOSYMX) < src_mtime:
        os.makedirs(os.path.dirname(GOSYMX), exist_ok=True)
        r = subprocess.run(["go", "build", "-o", GOSYMX, "./cmd/gosymx"], cwd=os.path.join(VERIF, "engine"), env=GOENV,
                           capture_output=True, text=True)
        if r.returncode != 0:
            log("ENGINE-ERROR: cannot build gosymx\n" + r.stderr)
            sys.exit(2)


# ---- interception hooks in dependencies: the same patched copy of a dependency's source file is
# overlaid for the executor and for the native replay, so that a harness can observe an internal
# hand-over (e.g. the text ParseDSL gives to the lexer) identically on both sides.
DEP_HOOKS = [
    {"module": "github.com/antlr4-go/antlr/v4", "file": "input_stream.go",
     "after": "func NewInputStream(data string) *InputStream {",
     "insert": "\tif VerifInputHook != nil {\n\t\tVerifInputHook(data)\n\t}\n",
     "append": "\n// VerifInputHook observes the text handed to the lexer (/verif interception hook, overlay only).\nvar VerifInputHook func(string)\n"},
    # a file ADDED to the antlr package: membership of a child sequence in a rule's sub-automaton of the deserialised ATN
    # (go list does not add overlay files to a package of the module cache, so the function is appended to atn.go)
    {"module": "github.com/antlr4-go/antlr/v4", "file": "atn.go", "after": "type ATN struct {", "insert": "", "append_file": "dep/antlr/conform.go"},
    # gonum's map iterators (unsafe + go:linkname into the runtime) replaced by plain `range` loops with the
    # same unexported interface and contract: harness/dep/gonum_iterator/map.go (C17)
    {"module": "gonum.org/v1/gonum", "file": "graph/iterator/map.go", "replace": "dep/gonum_iterator/map.go", "must_contain": "func (it *mapIter) next() bool"},
    {"module": "gonum.org/v1/gonum", "file": "graph/iterator/hiter_swiss.go", "replace": "dep/gonum_iterator/empty.go", "must_contain": "type hiter struct"},
    {"module": "gonum.org/v1/gonum", "file": "graph/iterator/hiter_noswiss.go", "replace": "dep/gonum_iterator/empty.go", "must_contain": "type hiter struct"},
]
_dep_overlay_cache = {}


def dep_overlay():
    """Returns {path in module cache: patched temp file}; generated from the dependency's current source."""
    if _dep_overlay_cache:
        return _dep_overlay_cache
    d = tempfile.mkdtemp(prefix="verif-dephooks-")
    import atexit
    atexit.register(lambda: shutil.rmtree(d, ignore_errors=True))
    for i, h in enumerate(DEP_HOOKS):
        r = subprocess.run(["go", "list", "-m", "-f", "{{.Dir}}", h["module"]], cwd=REPO_GO, env=GOENV, capture_output=True, text=True)
        moddir = r.stdout.strip()
        if "append_file" in h:
            h = dict(h, append="\n" + "".join(l for l in open(os.path.join(HARNESS, h["append_file"])) if not l.startswith("package ")))
        src = open(os.path.join(moddir, h["file"])).read()
        if "replace" in h:
            # whole-file replacement; the anchor guards against a dependency version with another layout
            if h["must_contain"] not in src:
                log("ENGINE-ERROR: dependency file %s no longer has the layout the overlay replaces" % h["file"])
                sys.exit(2)
            _dep_overlay_cache[os.path.join(moddir, h["file"])] = os.path.join(HARNESS, h["replace"])
            continue
        if h["after"] not in src:
            log("ENGINE-ERROR: dependency hook anchor not found in %s" % h["file"])
            sys.exit(2)
        src = src.replace(h["after"], h["after"] + "\n" + h["insert"], 1) + h["append"]
        out = os.path.join(d, "%d_%s" % (i, os.path.basename(h["file"])))
        open(out, "w").write(src)
        _dep_overlay_cache[os.path.join(moddir, h["file"])] = out
    return _dep_overlay_cache


def run_gosymx(jobs, workdir):
    ensure_engine()
    spec = {"repo_dir": REPO_GO, "harness_dir": HARNESS, "tags": "verif", "jobs": jobs, "extra_overlay": dep_overlay()}
    sp = os.path.join(workdir, "spec.json")
    op = os.path.join(workdir, "out.json")
    json.dump(spec, open(sp, "w"))
    r = subprocess.run([GOSYMX, "run", "-spec", sp, "-out", op], env=GOENV, capture_output=True, text=True)
    sys.stderr.write(r.stderr)
    if r.returncode != 0 or not os.path.exists(op):
        log("ENGINE-ERROR: gosymx failed (exit %d)" % r.returncode)
        if os.path.exists(op):
            log("\n".join(json.load(open(op)).get("errors") or []))
        sys.exit(2)
    return json.load(open(op))


# ---------------------------------------------------------------- native replay

def harness_funcs(pkg):
    names = []
    d = os.path.join(HARNESS, pkg)
    for f in sorted(os.listdir(d)):
        if f.endswith(".go") and not f.endswith("_test.go"):
            for line in open(os.path.join(d, f)):
                if line.startswith("func Verif") and "()" in line:
                    names.append(line[5:line.index("(")])
    return names


def native_replay(pkg, witnesses, repeat=1, timeout=900):
    """witnesses: list of dict (witness json). Returns list of event lists (or None when the run failed)."""
    if not witnesses:
        return []
    tmp = tempfile.mkdtemp(prefix="verif-replay-")
    try:
        wdir = os.path.join(tmp, "w")
        os.makedirs(wdir)
        for i, w in enumerate(witnesses):
            json.dump(w, open(os.path.join(wdir, "%05d.json" % i), "w"))
        replace = {}
        for sub in os.listdir(HARNESS):
            d = os.path.join(HARNESS, sub)
            if not os.path.isdir(d):
                continue
            for f in os.listdir(d):
                if not f.endswith(".go"):
                    continue
                if sub == "zzverif":
                    replace[os.path.join(REPO_GO, "zzverif", f)] = os.path.join(d, f)
                else:
                    replace[os.path.join(REPO_GO, sub, "zz_verif_" + f)] = os.path.join(d, f)
        test_src = "package %s\n\nimport (\n\t\"testing\"\n\n\t\"github.com/openfga/language/pkg/go/zzverif\"\n)\n\nfunc TestVerifReplay(t *testing.T) {\n\tif err := zzverif.ReplayDir(map[string]func(){\n" % pkg
        for n in harness_funcs(pkg):
            test_src += "\t\t%s: %s,\n" % (json.dumps(n), n)
        test_src += "\t}); err != nil {\n\t\tt.Fatal(err)\n\t}\n}\n"
        tf = os.path.join(tmp, "replay_test.go")
        open(tf, "w").write(test_src)
        replace[os.path.join(REPO_GO, pkg, "zz_verif_replay_test.go")] = tf
        replace.update(dep_overlay())
        ov = os.path.join(tmp, "overlay.json")
        json.dump({"Replace": replace}, open(ov, "w"))
        env = dict(GOENV, VERIF_WITNESS_DIR=wdir, VERIF_REPEAT=str(repeat))
        crashed = set()
        for _round in range(6):
            r = subprocess.run(["go", "test", "-tags", "verif", "-vet=off", "-count=1", "-overlay", ov, "-run", "^TestVerifReplay$",
                                "-timeout", "%ds" % timeout, "./" + pkg], cwd=REPO_GO, env=env, capture_output=True, text=True)
            missing = [i for i in range(len(witnesses)) if i not in crashed and not os.path.exists(os.path.join(wdir, "%05d.json.out" % i))]
            if not missing or r.returncode == 0:
                break
            # the test process died (fatal error such as a stack overflow cannot be recovered): the first
            # witness without a record is the one that killed it; replay the rest without it
            first = missing[0]
            crashed.add(first)
            tail = (r.stdout + r.stderr)[-400:]
            json.dump([{"kind": "crash", "detail": tail}], open(os.path.join(wdir, "%05d.json.out" % first), "w"))
            os.rename(os.path.join(wdir, "%05d.json" % first), os.path.join(wdir, "%05d.crashed" % first))
            for i in range(len(witnesses)):
                if i < first and os.path.exists(os.path.join(wdir, "%05d.json" % i)):
                    os.rename(os.path.join(wdir, "%05d.json" % i), os.path.join(wdir, "%05d.done" % i))
        out = []
        for i in range(len(witnesses)):
            p = os.path.join(wdir, "%05d.json.out" % i)
            if os.path.exists(p):
                out.append(json.load(open(p)) or [])
            else:
                out.append(None)
        if r.returncode != 0 and all(o is None for o in out):
            sys.stderr.write("native replay failed:\n" + r.stdout[-3000:] + r.stderr[-3000:])
        return out
    finally:
        shutil.rmtree(tmp, ignore_errors=True)


# ---------------------------------------------------------------- generic engine-A check

class Outcome:
    def __init__(self, pid, tier):
        self.pid = pid
        self.tier = tier
        self.violations = []     # (what, replay_path)
        self.known = []          # strings
        self.unconfirmed = []
        self.inconclusive = []
        self.engine_errors = []
        self.coverage = {}
        self.assumptions = []
        self.level = "model_checking"
        self.t0 = time.time()

    def finish(self):
        evdir = os.environ.get("VERIF_EVIDENCE_DIR", os.path.join(VERIF, "evidence"))
        os.makedirs(evdir, exist_ok=True)
        ev = {
            "property_id": self.pid,
            "tier": self.tier,
            "seed": int(os.environ.get("VERIF_SEED", "0") or 0),
            "level": self.level,
            "coverage": self.coverage,
            "assumptions": self.assumptions,
            "wall_s": round(time.time() - self.t0, 2),
            "violations": len(self.violations),
        }
        ev["coverage"]["known_findings_reported"] = self.known
        ev["coverage"]["unconfirmed_counterexamples"] = self.unconfirmed
        ev["coverage"]["inconclusive"] = self.inconclusive
        json.dump(ev, open(os.path.join(evdir, self.pid + ".json"), "w"), indent=1)
        for what, path in self.violations[:8]:
            log("VIOLATION property=%s replay=%s  (%s)" % (self.pid, path, what))
        if len(self.violations) > 8:
            log("... and %d more violations (see evidence)" % (len(self.violations) - 8))
        for k in self.known:
            log("KNOWN-FINDING: property=%s %s" % (self.pid, k))
        seen_u = set()
        for u in self.unconfirmed:
            if u not in seen_u and len(seen_u) < 6:
                log("UNCONFIRMED: property=%s %s" % (self.pid, u))
            seen_u.add(u)
        for i in self.inconclusive[:10]:
            log("INCONCLUSIVE: property=%s %s" % (self.pid, i))
        if self.engine_errors:
            for e in self.engine_errors:
                log("ENGINE-ERROR: property=%s %s" % (self.pid, e))
            if not self.violations:
                sys.exit(2)
        if self.violations:
            sys.exit(1)
        log("OK property=%s tier=%s wall=%.1fs" % (self.pid, self.tier, time.time() - self.t0))
        sys.exit(0)


def match_known(known, pid, harness, label, cls, input_key=None):
    for k in known:
        if k.get("property") != pid or k.get("status", "known") != "known":
            continue
        if k.get("harness") not in (None, harness):
            continue
        if k.get("label") is not None and k.get("label") != label:
            continue
        if k.get("class") is not None and k.get("class") != cls:
            continue
        if k.get("inputs") is not None and input_key not in k["inputs"]:
            continue
        return k
    return None


def save_replay(pid, witness, extra=None):
    d = os.path.join(os.environ.get("VERIF_REPLAY_DIR", os.path.join(VERIF, "replays")), pid)
    os.makedirs(d, exist_ok=True)
    blob = json.dumps(witness, sort_keys=True)
    path = os.path.join(d, hashlib.sha256(blob.encode()).hexdigest()[:16] + ".json")
    w = dict(witness)
    if extra:
        w["_violation"] = extra
    json.dump(w, open(path, "w"), indent=1)
    return path


def engine_a_check(pid, tier, jobs, required_reach, assumptions, level_note, out=None, repeat_native=1, bounds=None):
    """Run harness jobs, confirm counterexamples natively, write evidence."""
    out = out or Outcome(pid, tier)
    known = load_known()
    tmp = tempfile.mkdtemp(prefix="verif-%s-" % pid)
    try:
        res = run_gosymx(jobs, tmp)
    finally:
        shutil.rmtree(tmp, ignore_errors=True)
    pkg_of = {j["harness"]: j["pkg"] for j in jobs}
    job_params = [dict(j.get("params") or {}, sched=j.get("sched", "first")) for j in jobs]
    states = transitions = 0
    funcs = {}
    queries = {"calls": 0, "sat": 0, "unsat": 0, "unknown": 0, "errors": 0}
    solver_s = 0.0
    samples = []
    stubs = set()
    per_harness = {}
    exhaustive = True
    reach_w = []   # (harness, label, witness)
    vio = []
    asserts_sym = asserts_conc = 0
    for r in res["results"]:
        h = r["harness"]
        states += r["paths"]
        transitions += r["decisions"]
        for f, n in (r.get("functions") or {}).items():
            funcs[f] = funcs.get(f, 0) + n
        queries["calls"] += r["solver_calls"]
        queries["sat"] += r["solver_sat"]
        queries["unsat"] += r["solver_unsat"]
        queries["unknown"] += r["solver_unknown"]
        queries["errors"] += r["solver_errors"]
        solver_s += r["solver_s"]
        asserts_sym += r["asserts_checked"]
        asserts_conc += r["asserts_concrete"]
        for s in (r.get("samples") or [])[:2]:
            samples.append(h + ": " + s)
        for s in r.get("stubs_used") or []:
            stubs.add(s)
        exhaustive = exhaustive and r["exhaustive"]
        hk = h
        i = 2
        while hk in per_harness:
            hk = "%s#%d" % (h, i)
            i += 1
        per_harness[hk] = {"params": job_params.pop(0) if job_params else None, "paths": r["paths"], "ends": r["ends"], "decisions": r["decisions"], "schedule_decisions": r["schedule_decisions"],
                          "pruned": r["pruned"], "reach": {k: v["count"] for k, v in (r.get("reach") or {}).items()},
                          "wall_s": round(r["wall_s"], 2), "exhaustive": r["exhaustive"], "max_steps_seen": r["max_steps_seen"],
                          "asserts_symbolic": r["asserts_checked"], "asserts_concrete": r["asserts_concrete"]}
        for k, n in (r.get("inconclusive") or {}).items():
            if k == "warmup-failed":
                # nothing of this job was explored: the package initialisation of the tree under test cannot be executed
                # (e.g. a package-level variable initialised from the clock or a random source) - never reported as success
                out.engine_errors.append("%s: the package initialisation cannot be executed by the engine, nothing was explored: %s" % (h, ((r.get("inconclusive_examples") or {}).get(k) or "")[:300]))
                continue
            out.inconclusive.append("%s: %s (x%d)" % (h, k, n))
        if required_reach.get(h) and not any(lab in (r.get("reach") or {}) for lab in required_reach[h]):
            # not one of the harness's reach labels was hit: nothing of the property was decided by this job
            # (the code under test cannot be executed by the engine, or every path was cut) - never reported as success
            out.engine_errors.append("%s: no path reached any of the labels %s - nothing was decided (%s)" % (h, required_reach[h], "; ".join("%s x%d" % kv for kv in (r.get("inconclusive") or {}).items())[:300]))
        for lab in required_reach.get(h, []):
            if lab not in (r.get("reach") or {}):
                if not r["exhaustive"]:
                    # the exploration was cut by its wall-clock budget (slow or busy machine): nothing can be said
                    out.inconclusive.append("%s: reach label %r not hit before the exploration budget ran out" % (h, lab))
                else:
                    out.engine_errors.append("vacuous harness %s: reach label %r never hit" % (h, lab))
        for lab, rr in (r.get("reach") or {}).items():
            if rr.get("witness") and rr["witness"].get("harness"):
                reach_w.append((h, lab, rr["witness"]))
        for v in r.get("violations") or []:
            vio.append(v)
        for w in r.get("path_witnesses") or []:
            reach_w.append((h, "path", w))
        # one digest per (group,input) across schedules
        for key, digests in (r.get("observed") or {}).items():
            if len(digests) > 1:
                vio.append({"harness": h, "label": "one-result-per-input", "class": "", "kind": "observe", "detail": "group %s has %d different results across schedules: %s" % (key, len(digests), [d[:80] for d in list(digests)[:4]]), "witness": None, "input_key": key,
                            "_obs_witnesses": (r.get("observed_witness") or {}).get(key) or []})
    # cross-solver diff: a sample of the assertion queries (full SMT-LIB scripts) is re-decided by z3 4.8.12 and cvc5 1.0
    diff = {"queries": 0, "agree": 0, "disagree": [], "other_unknown": 0}
    for r in res["results"]:
        for a in r.get("assert_scripts") or []:
            diff["queries"] += 1
            verdicts = {"z3-new": a["verdict"]}
            for name, cmd in (("z3-4.8.12", ["z3", "-in", "-T:30"]), ("cvc5", ["cvc5", "--lang=smt2", "--tlimit=30000"])):
                script = a["script"] if name != "cvc5" else "(set-logic ALL)\n" + a["script"]
                try:
                    o = subprocess.run(cmd, input=script, capture_output=True, text=True, timeout=45).stdout.strip().splitlines()
                    verdicts[name] = o[-1].strip() if o and "(error" not in " ".join(o) else "error"
                except Exception:  # noqa
                    verdicts[name] = "timeout"
            decided = set(v for v in verdicts.values() if v in ("sat", "unsat"))
            if len(decided) > 1:
                diff["disagree"].append({"harness": r["harness"], "label": a["label"], "verdicts": verdicts})
            elif all(v in ("sat", "unsat") for v in verdicts.values()):
                diff["agree"] += 1
            else:
                diff["other_unknown"] += 1
    for d in diff["disagree"]:
        out.engine_errors.append("solvers disagree on an assertion query: %s" % json.dumps(d))
    out.coverage["cross_solver_diff"] = diff
    # native confirmation, grouped per package
    validated = 0
    by_pkg = {}
    for h, lab, w in reach_w:
        by_pkg.setdefault(pkg_of[h], []).append(("reach", h, lab, w, None))
    for v in vio:
        if v.get("witness"):
            by_pkg.setdefault(pkg_of[v["harness"]], []).append(("vio", v["harness"], v["label"], v["witness"], v))
    confirmed = set()
    skipped = 0
    for pkg, items in by_pkg.items():
        evs = native_replay(pkg, [it[3] for it in items], repeat=repeat_native)
        for it, ev in zip(items, evs):
            kind, h, lab, w, v = it
            if ev is None:
                out.inconclusive.append("native replay produced no record for %s %s" % (h, lab))
                continue
            if any(e["kind"] == "skip" for e in ev):
                skipped += 1
                if kind == "vio":
                    v["_skipped"] = [e["detail"] for e in ev if e["kind"] == "skip"][0]
                continue
            if kind == "reach":
                if lab in ("return", "path") or any(e["kind"] == "reach" and e["label"] == lab for e in ev):
                    bad = [e for e in ev if e["kind"] == "mismatch" or (e["kind"] == "assert-fail" and not match_known(known, pid, h, e.get("label"), e.get("class", "")))]
                    if lab == "path" and bad:
                        out.unconfirmed.append("stub/engine discrepancy: a path of %s that passes under the executor fails natively: %s" % (h, json.dumps(bad)[:300]))
                        continue
                    if not any(e["kind"] == "mismatch" for e in ev):
                        validated += 1
                        continue
                out.unconfirmed.append("reach witness of %s/%s does not reproduce natively: %s" % (h, lab, json.dumps(ev)[:300]))
            else:
                fails = [e for e in ev if e["kind"] == "assert-fail" and e["label"] == lab]
                if not fails and v.get("kind") == "global-store" and not any(e["kind"] == "mismatch" for e in ev):
                    # a store into a package-level variable has no native observation point of its own; it is
                    # confirmed when the witness replays natively along the same path (no mismatch): the store
                    # instruction is on that path
                    fails = [{"class": v.get("class", "")}]
                if not fails and any(e["kind"] == "crash" for e in ev):
                    fails = [{"class": v.get("class", "")}]
                    v["detail"] = (v.get("detail") or "") + " - the native replay of this counterexample killed the test process (fatal error): " + [e for e in ev if e["kind"] == "crash"][0]["detail"][-160:].replace("\n", " ")
                if fails:
                    validated += 1
                    v["_native_class"] = fails[0].get("class", "")
                    confirmed.add(id(v))
    for v in vio:
        h, lab, cls = v["harness"], v["label"], v.get("class", "")
        what = "%s/%s [%s] %s" % (h, lab, cls, v.get("detail", ""))
        if v.get("kind") == "observe":
            k = match_known(known, pid, h, lab, cls, v.get("input_key"))
            if k:
                out.known.append(k["what"])
                continue
            # native confirmation: the same inputs built repeatedly (real map iteration orders) / the recorded
            # call histories must give at least two different digests natively
            ws = v.pop("_obs_witnesses", [])
            group = v["input_key"].split("|")[0]
            digests = set()
            if ws:
                evs = native_replay(pkg_of[h], ws, repeat=1 if group.startswith("global:") else 400)
                for ev in evs:
                    for e in ev or []:
                        if e["kind"] == "observe" and e["label"] == group:
                            digests.add(e["detail"])
            if len(digests) > 1:
                validated += 1
                path = save_replay(pid, dict(ws[0], note=v["detail"]), {"label": lab, "native_digests": [d[:200] for d in list(digests)[:4]]})
                out.violations.append((what, path))
            else:
                out.unconfirmed.append(what + " (native runs gave %d different result(s): not confirmed)" % len(digests))
            continue
        if id(v) not in confirmed:
            if v.get("_skipped"):
                out.unconfirmed.append(what + " (not replayable natively: %s)" % v["_skipped"])
            else:
                out.unconfirmed.append(what + " (counterexample does not reproduce natively)")
            continue
        k = match_known(known, pid, h, lab, cls, v.get("input_key"))
        if k:
            if k["what"] not in out.known:
                out.known.append(k["what"])
            continue
        path = save_replay(pid, v["witness"], {"label": lab, "class": cls, "detail": v.get("detail")})
        out.violations.append((what, path))
    cov = out.coverage
    cov.update({
        "states": states,
        "transitions": max(transitions, 1) if states else 0,
        "traces_validated_against_impl": validated,
        "samples": samples or ["(no completed path)"],
        "exhaustive": bool(exhaustive and not out.inconclusive),
        "bounds": bounds or {},
        "per_harness": per_harness,
        "functions_encoded": sorted(funcs.items(), key=lambda kv: -kv[1])[:80],
        "dependency_functions_encoded": sorted(f for f in funcs if "openfga/language" not in f)[:120],
        "repo_functions_encoded": sorted(f for f in funcs if "openfga/language/pkg/go" in f and "/zzverif" not in f and "/gen." not in f and "/gen)" not in f),
        "functions_encoded_count": len(funcs),
        "queries": queries,
        "assertions_discharged_by_solver": asserts_sym,
        "assertions_concrete_on_path": asserts_conc,
        "solver_s": round(solver_s, 2),
        "solver": "z3 5.1.0 (z3-new -in), one process per worker, push/pop",
        "stubs_used": sorted(stubs),
        "native_replays_skipped": skipped,
        "load_s": res.get("load_s"),
        "packages_loaded_from_repo_tree": res.get("packages"),
    })
    out.assumptions = list(assumptions) + sorted(stubs)
    return out


# ---------------------------------------------------------------- registry

def W(tier, quick, thorough):
    return quick if tier == "quick" else thorough


def c15(tier):
    n1 = W(tier, 7, 10)
    jobs = [
        {"pkg": "transformer", "harness": "VerifC15_OnePath", "workers": NCPU, "params": {"N": n1}},
        {"pkg": "transformer", "harness": "VerifC15_Manifest", "workers": NCPU, "params": {"K": W(tier, 2, 3), "TRAILING": 1, "PROPS": 1}},
        {"pkg": "transformer", "harness": "VerifC15_TwoPaths", "workers": NCPU, "params": {"N": W(tier, 3, 4)}},
        T("transformer", "VerifC15_Decoded", {"N": W(tier, 12, 24)}, redirects={"net/url.QueryUnescape": "verifUnescapeStub"}),
    ]
    out = engine_a_check("C15", tier, jobs,
                         {"VerifC15_OnePath": ["accepted", "rejected"], "VerifC15_Manifest": ["accepted", "rejected", "yaml-error"], "VerifC15_TwoPaths": W(tier, ["rejected"], ["accepted", "rejected"]), "VerifC15_Decoded": ["accepted", "rejected"]},
                         ["yaml.v3 positions/scalar styles/anchors are outside (stub contract)",
                          "strings longer than the bound are outside the claim"],
                         "", bounds={"OnePath": "one entry, all byte strings of length 0..%d" % n1,
                                     "Manifest": "schema/contents of every node kind, <= %d entries from a menu of 10 good/offending paths + non-string nodes, symbolic positions" % W(tier, 2, 3),
                                     "TwoPaths": "two entries, all byte strings of length 0..%d each" % W(tier, 3, 4),
                                     "Decoded": "post-decoding rules: all decoded byte strings of length 0..%d (url.QueryUnescape stubbed; natively the fully percent-encoded entry)" % W(tier, 12, 24)})
    out.finish()


def go_test_overlay(pkg, test_src, env_extra, timeout=600):
    """Run a generated in-package test natively (overlay) and return (rc, output)."""
    tmp = tempfile.mkdtemp(prefix="verif-native-")
    try:
        tf = os.path.join(tmp, "t_test.go")
        open(tf, "w").write(test_src)
        ov = os.path.join(tmp, "overlay.json")
        json.dump({"Replace": {os.path.join(REPO_GO, pkg, "zz_verif_native_test.go"): tf}}, open(ov, "w"))
        env = dict(GOENV, **env_extra)
        r = subprocess.run(["go", "test", "-tags", "verif", "-vet=off", "-count=1", "-overlay", ov, "-run", "^TestVerifNative$",
                            "-timeout", "%ds" % timeout, "./" + pkg], cwd=REPO_GO, env=env, capture_output=True, text=True)
        return r.returncode, r.stdout + r.stderr
    finally:
        shutil.rmtree(tmp, ignore_errors=True)


C18_NATIVE = """package validation

import (
	"encoding/json"
	"os"
	"testing"
)

func TestVerifNative(t *testing.T) {
	var in []string
	data, _ := os.ReadFile(os.Getenv("VERIF_IN"))
	if err := json.Unmarshal(data, &in); err != nil {
		t.Fatal(err)
	}
	var out []map[string]bool
	for _, s := range in {
		out = append(out, map[string]bool{
			"ValidateObject": ValidateObject(s), "ValidateObjectID": ValidateObjectID(s), "ValidateRelation": ValidateRelation(s),
			"ValidateUserSet": ValidateUserSet(s), "ValidateUserObject": ValidateUserObject(s), "ValidateUserWildcard": ValidateUserWildcard(s),
			"ValidateUser": ValidateUser(s), "ValidateRelationshipCondition": ValidateRelationshipCondition(s), "ValidateType": ValidateType(s),
		})
	}
	b, _ := json.Marshal(out)
	os.WriteFile(os.Getenv("VERIF_OUT"), b, 0o644)
}
"""


def c18(tier):
    from atnre import c18 as eb
    out = Outcome("C18", tier)
    out.level = "proof"
    known = load_known()
    tmp = tempfile.mkdtemp(prefix="verif-C18-")
    try:
        res = run_gosymx([{"pkg": "validation", "harness": "VerifC18_Langs", "workers": 4, "timeout_ms": 20000}], tmp)
        r = res["results"][0]
        out.coverage["repo_functions_encoded"] = sorted(f for f in (r.get("functions") or {}) if "openfga/language/pkg/go" in f and "/zzverif" not in f)
        for k, n in (r.get("inconclusive") or {}).items():
            out.inconclusive.append("VerifC18_Langs: %s (x%d)" % (k, n))

        def native_validate(strings):
            fin, fout = os.path.join(tmp, "in.json"), os.path.join(tmp, "out.json")
            json.dump(strings, open(fin, "w"))
            rc, txt = go_test_overlay("validation", C18_NATIVE, {"VERIF_IN": fin, "VERIF_OUT": fout})
            if not os.path.exists(fout):
                out.inconclusive.append("native validator run failed: " + txt[-300:])
                return [None] * len(strings)
            return json.load(open(fout))

        try:
            results, rules, L = eb.run(r, tier, native_validate)
        except Exception as e:  # noqa
            out.engine_errors.append("engine B failed: %r" % (e,))
            out.coverage.update({"obligations": 0, "discharged": 0, "checker_cmd": "z3-new -in", "trusted_base": []})
            out.finish()
        discharged = 0
        samples = []
        solver_s = 0.0
        for o in results:
            solver_s += o["s"]
            ok = o["verdict"] == o["expect"]
            if o["verdict"] in ("unknown", "error", "timeout"):
                out.inconclusive.append("obligation %s: solver answered %s" % (o["name"], o["verdict"]))
                continue
            if ok and o["verdict"] == "sat":
                # the witness must be accepted natively by the validator concerned
                nat = o.get("native")
                nm = o["name"]
                want = None
                for key, v in (("type-", "ValidateType"), ("relation-", "ValidateRelation"), ("condition-", "ValidateRelationshipCondition"), ("object-", "ValidateObject")):
                    if nm.startswith(key):
                        want = v
                if nm.startswith("nonempty-"):
                    want = nm[len("nonempty-"):]
                if nat is None or (want and not nat.get(want)):
                    out.unconfirmed.append("witness of %s is not accepted natively: %r" % (nm, (o.get("witness") or "")[:60]))
                    continue
                discharged += 1
            elif ok:
                discharged += 1
            else:
                what = "C18/%s expected %s got %s witness=%r native=%s" % (o["name"], o["expect"], o["verdict"], (o.get("witness") or "")[:80], o.get("native"))
                k = match_known(known, "C18", "VerifC18_Langs", o["name"], "")
                if k:
                    out.known.append(k["what"])
                    discharged += 1
                    continue
                if o["verdict"] == "sat" and o.get("native") is None:
                    out.unconfirmed.append(what)
                    continue
                path = save_replay("C18", {"harness": "C18-obligation", "inputs": [], "obligation": o["name"], "witness_string": o.get("witness"), "native": o.get("native")})
                out.violations.append((what, path))
            if len(samples) < 6:
                samples.append({k: o[k] for k in ("name", "expect", "verdict", "s") if k in o})
            if tier == "thorough" and o.get("scaled_verdicts"):
                vs = set(v for v in o["scaled_verdicts"].values() if v in ("sat", "unsat"))
                if len(vs) > 1:
                    out.engine_errors.append("solvers disagree at scaled bounds on %s: %s" % (o["name"], o["scaled_verdicts"]))
        # rule strings identical to the JS and Java packages
        other = eb.extract_rule_strings()
        pairs = {"RuleType": "type", "RuleRelation": "relation", "RuleCondition": "condition", "RuleID": "id", "RuleObject": "object"}
        rule_cmp = []
        for g, k in pairs.items():
            gv = rules.get(g)
            for lang in ("js", "java"):
                ov = other[lang].get(k)
                same = gv is not None and gv == ov
                rule_cmp.append({"rule": g, "other": lang, "identical": same})
                if not same:
                    what = "C18/rule-strings %s: go=%r %s=%r" % (g, gv, lang, ov)
                    k2 = match_known(known, "C18", "VerifC18_Langs", "rule-strings", g)
                    if k2:
                        out.known.append(k2["what"])
                    else:
                        path = save_replay("C18", {"harness": "C18-rule-strings", "inputs": [], "rule": g, "go": gv, lang: ov})
                        out.violations.append((what, path))
        nob = len(results)
        out.coverage.update({
            "obligations": nob, "discharged": discharged,
            "checker_cmd": "z3-new -in  (z3 5.1.0; one SMT-LIB2 script per obligation: (assert (str.in_re x L)) (check-sat))",
            "trusted_base": ["z3 5.1.0 sequence/regex solver", "gosymx SSA interpreter (path enumeration of the validators)", "regexp/syntax parser of the Go toolchain (same parser regexp.MatchString uses)", "RegLan translation in engine/interp/re2smt.go"],
            "samples": samples, "obligation_results": results, "rule_string_comparison": rule_cmp,
            "functions_encoded": sorted((r.get("functions") or {}).keys()), "executor_paths": r["paths"],
            "patterns_computed_by_real_code": sorted((r.get("patterns") or {}).keys()),
            "bounds": "no bound on string length; code points <= U+2FFFF; cross-solver diff at scaled repetition bounds in the thorough tier",
            "solver_s": round(solver_s, 2), "exhaustive": discharged == nob,
        })
        out.assumptions = ["RE2 semantics of regexp as implemented by regexp/syntax; JS/Java regex dialect differences for identical rule strings are outside",
                           "whitespace = RE2 \\s = [\\t\\n\\f\\r ]"] + (r.get("stubs_used") or [])
    finally:
        shutil.rmtree(tmp, ignore_errors=True)
    out.finish()


def T(pkg, harness, params=None, **kw):
    """One exploration job. Every job has a wall-clock budget (a run that hits it is reported INCONCLUSIVE, never as success)."""
    quick = os.environ.get("VERIF_TIER_CUR", "quick") == "quick"
    j = {"pkg": pkg, "harness": harness, "workers": NCPU, "params": params or {},
         "deadline_s": 240 if quick else 3600, "record_asserts": 6 if quick else 40}
    j.update(kw)
    return j


def c16(tier):
    n, d = W(tier, 2, 3), 2
    lay = {"NS": W(tier, 4, 5), "NI": W(tier, 3, 6)}   # separators / indents taken from the lists in harness/utils/c16_lines.go
    jobs = [T("utils", "VerifC16_TypeLine", dict(lay, N=n, D=d)), T("utils", "VerifC16_ExtendedTypeLine", dict(lay, N=n, D=d)),
            T("utils", "VerifC16_ConditionLine", dict(lay, N=n, D=d)), T("utils", "VerifC16_RelationLine", dict(lay, N=n, D=d)),
            # declarations behind a lone carriage return inside a line
            T("utils", "VerifC16_TypeLine", {"N": 2, "D": 2, "NS": 2, "NI": 2, "CRSEG": 1}), T("utils", "VerifC16_RelationLine", {"N": 2, "D": 2, "NS": 2, "NI": 2, "CRSEG": 1}),
            T("utils", "VerifC16_Column", {"N": 3, "CRSEG": 1}),
            T("utils", "VerifC08_OddLines", {"T": W(tier, 1, 2), "NS": 3, "NI": 3}), T("utils", "VerifC08_FreeLine", {"L": W(tier, 6, 8)}),
            T("transformer", "VerifC03_PrePass", {"N": W(tier, 5, 7), "ASCII": 1}), T("transformer", "VerifC03_PrePass", {"N": W(tier, 3, 4)}),
            T("transformer", "VerifC16_PrePassRunes"),
            T("transformer", "VerifC07_Merge", {"SCEN": 1, "N": 2, "NR": 1, "SEPS": 1, "CRLF": 1}),
            T("transformer", "VerifC07_Merge", {"SCEN": 5, "N": 1, "NR": 1}),
            T("transformer", "VerifC07_Merge", {"SCEN": 0, "F": 2, "DECLS": 3, "RELS": 1, "CONDS": 1, "FAULTS": 0, "N": 2, "NR": 1}),
            LJ("VerifListener_Doc", tier, MODULES=1, EXTEND=1, NODES=1, DEPTH=0, CONDS=2),
            T("transformer", "VerifC16_SyntaxError"), T("transformer", "VerifC16_ErrorTexts")]
    out = engine_a_check("C16", tier, jobs,
                         {"VerifC16_TypeLine": ["type"], "VerifC16_ExtendedTypeLine": ["extend"], "VerifC16_ConditionLine": ["condition"],
                          "VerifC16_RelationLine": ["relation"], "VerifC16_Column": ["column"],
                          "VerifC08_OddLines": ["declaration", "no-declaration"], "VerifC08_FreeLine": ["declaration", "no-declaration"], "VerifC03_PrePass": ["lemmas-checked"], "VerifC07_Merge": ["rejected"], "VerifListener_Doc": ["rejected"], "VerifC16_SyntaxError": ["recorded"], "VerifC16_ErrorTexts": ["texts"], "VerifC16_PrePassRunes": ["lemmas-checked"]},
                         ["ANTLR token positions with respect to the cleaned text are outside (lexer/parser not encoded)",
                          "declaration lines follow the layout <indent><keyword> <name><tail>"], "",
                         bounds={"line lookups": "<= %d declarations, names of length 1..%d over {a,e,t,_,.,-}, %d indents and %d keyword-name separators (blanks, tabs, form feeds), 2-3 tails" % (d + 1, n, lay["NI"], lay["NS"]),
                                 "pre-pass": "all strings over 0x00..0x7f of length <= %d, all byte strings of length <= %d" % (W(tier, 5, 7), W(tier, 3, 4))})
    out.finish()


def c14(tier):
    n = W(tier, 1, 2)
    jobs = [T("transformer", "VerifC14_CmpPair", {"N": W(tier, 2, 3)}), T("transformer", "VerifC14_CmpTriple", {"N": W(tier, 1, 2)}),
            T("transformer", "VerifC14_Canonical", {"N": n}, sched="all", prune=True),
            T("transformer", "VerifC14_Inert", {"N": n}), T("transformer", "VerifC14_Inert", {"N": 1, "NL": 1}),
            T("transformer", "VerifC14_TypeOrder", {"N": n}),
            T("transformer", "VerifC14_ManyRelations", {}, sched="rot", prune=True),
            T("transformer", "VerifC14_ParamOrder", {"N": W(tier, 2, 3)}, sched="all", prune=True),
            T("transformer", "VerifC14_CondOrder", {"N": n}, sched="all", prune=True),
            T("transformer", "VerifC02_Names", {"N": 2}, sched="all", prune=True),
            T("transformer", "VerifC14_JSONString", {"N": n}),
            # repeated calls on one model (every rewrite shape): same text
            T("transformer", "VerifC02_Shapes", {"NODES": W(tier, 4, 5), "DEPTH": 2, "WIDTH": 3})]
    out = engine_a_check("C14", tier, jobs, {"VerifC14_CmpPair": ["less", "greater", "equal"], "VerifC14_CmpTriple": ["chain"], "VerifC14_JSONString": ["printed"], "VerifC02_Shapes": ["accepted"],
                                             "VerifC14_Canonical": ["printed"], "VerifC14_Inert": ["compared"], "VerifC02_Names": ["printed"],
                                             "VerifC14_TypeOrder": ["printed"], "VerifC14_ManyRelations": ["printed"], "VerifC14_ParamOrder": ["printed"], "VerifC14_CondOrder": ["printed"]},
                         ["names/modules/files over small alphabets (the code only compares and copies bytes)",
                          "JSON key order reduces to map order (protojson not encoded)",
                          "module/file names over small alphabets, one job with line feeds and carriage returns in them"], "",
                         repeat_native=8, bounds={"CmpPair": "two keys, every string of length <= %d" % W(tier, 2, 3), "CmpTriple": "three keys, every string of length <= %d" % W(tier, 1, 2),
                                 "Canonical/Inert": "modular model: 2 types, 2 relations, 2 conditions x 4 parameters, all names symbolic of length <= %d, every iteration order of every map in jsontodsl.go (state-hash pruned), both type orders, both option values" % n})
    out.finish()


def c02(tier):
    jobs = [T("transformer", "VerifC02_Shapes", {"NODES": W(tier, 5, 6), "DEPTH": W(tier, 2, 3), "WIDTH": 3}),
            T("transformer", "VerifC02_Names", {"N": W(tier, 2, 3)}), T("transformer", "VerifC02_ParamTypes")]
    out = engine_a_check("C02", tier, jobs, {"VerifC02_Shapes": ["accepted", "rejected", "hoisted", "restrictions-dropped"], "VerifC02_Names": ["printed"], "VerifC02_ParamTypes": ["accepted", "rejected"]},
                         ["the parse-back of the produced text is decided on the text (canonical rendering of the normalised model written from the property); the listener half is part of C01",
                          "names are identifiers (a direct assignment without type restrictions and parameter types without a DSL word are part of the claim: they must be rejected)"], "",
                         bounds={"Shapes": "every rewrite tree with <= %d nodes, depth <= %d, <= 3 operands per operator, 4 restriction lists" % (W(tier, 5, 6), W(tier, 2, 3)),
                                 "Names": "type/relation/sibling names symbolic, length <= %d" % W(tier, 2, 3)})
    grammar_facts(out, "C02")
    out.finish()


def c13(tier):
    jobs = [T("transformer", "VerifC13_PrinterFrozen", {"N": W(tier, 1, 2)}),
            T("transformer", "VerifC02_Shapes", {"NODES": 4, "DEPTH": 2, "WIDTH": 3}),
            T("transformer", "VerifC08_PrinterDegenerate", {"NODES": 3, "DEPTH": 2}),
            T("graph", "VerifC13_PlainGraphFrozen", dict(FAMS["A"][0]), init_allow=["gonum.org/v1/gonum/graph/encoding/dot"]),
            T("graph", "VerifC13_PlainGraphFrozen", dict(FAMS["H"][0]), init_allow=["gonum.org/v1/gonum/graph/encoding/dot"]),
            T("graph", "VerifC13_GraphHistory"), fam(6, "K", **FIRST), fam(6, "J", **FIRST), fam(6, "H", **FIRST),
            T("transformer", "VerifC07_Merge", {"SCEN": 0, "F": 2, "DECLS": 2, "RELS": 1, "CONDS": 1, "FAULTS": 1, "N": 1, "NR": 1}),
            T("transformer", "VerifC07_Merge", {"SCEN": 2, "N": 1, "NR": 1, "REVNAMES": 1}),
            # the string entry points (and the listener behind them) on frozen input; the JSON string API
            LJS("VerifC01_JSONAPI", tier, NODES=2, DEPTH=1, **SHAPES)]
    out = engine_a_check("C13", tier, jobs, {"VerifC13_PrinterFrozen": ["printed"], "VerifC02_Shapes": ["accepted"], "VerifC08_PrinterDegenerate": ["accepted"],
                                             "VerifC13_GraphHistory": ["built"], "VerifGraph_Family": ["return"], "VerifC07_Merge": ["accepted"], "VerifC13_PlainGraphFrozen": ["queried"], "VerifC01_JSONAPI": ["rendered"]},
                         ["data races, goroutines and the parser's prediction-cache history are outside (not applicable to this technique)",
                          "decided: no store into anything reachable from the argument (frozen-object monitor) and no store into a package-level variable of the repository"], "",
                         bounds={"printer": "modular models with symbolic names (so that the sort really swaps), all C02 shapes <= 4 nodes, degenerate protos"})
    out.finish()


def c08(tier):
    jobs = [T("transformer", "VerifC08_PrinterDegenerate", {"NODES": W(tier, 4, 5), "DEPTH": 2}),
            T("transformer", "VerifC08_ConditionsDegenerate"),
            T("transformer", "VerifC15_Manifest", {"K": 2, "TRAILING": 1}),
            T("transformer", "VerifC16_SyntaxError"),
            T("transformer", "VerifC07_Merge", {"SCEN": 0, "F": 2, "DECLS": 2, "RELS": 1, "CONDS": 1, "FAULTS": 1, "N": 1, "NR": 1}),
            merge_listener_jobs(tier, "VerifC07_Merge", FIRST, which=(0,))[0],
            LJ("VerifC08_ListenerRecovery", tier, NODES=1, DEPTH=0, SIBLINGS=0, CONDS=1, FIXLAYOUT=1, PARAMS=1, EXTEND=1, MODULES=1),
            T("graph", "VerifC08_GraphDegenerate", {"DEPTH": W(tier, 1, 2)}),
            T("graph", "VerifC08_PlainGraphDegenerate", init_allow=["gonum.org/v1/gonum/graph/encoding/dot"]),
            T("utils", "VerifC08_OddLines", {"T": W(tier, 1, 2), "NS": W(tier, 3, 5), "NI": W(tier, 3, 6)}), T("utils", "VerifC08_FreeLine", {"L": W(tier, 6, 8)}),
            # work clause: instructions executed <= WA + WB*n*n (n relations); the unchanged tree needs about 1400*n
            T("graph", "VerifC08_BoundedWork", {"D": W(tier, 16, 40), "WA": 100000, "WB": 1000}),
            # growth condition: work(2d) <= 1.25 * (size ratio)^2 * work(d) for the weighted builder, every family
            T("graph", "VerifC08_Growth", {"D": W(tier, 24, 32)}, max_steps=400000000, init_allow=["gonum.org/v1/gonum/graph/encoding/dot"]),
            # printer: about 160*n on the unchanged tree; merge: about 340*n
            T("transformer", "VerifC08_PrinterWork", {"D": W(tier, 24, 48), "WA": 20000, "WB": 200}),
            T("transformer", "VerifC08_MergeWork", {"D": W(tier, 12, 24), "WA": 50000, "WB": 200}),
            # listener: about 1700*n + 6000 on the unchanged tree
            T("transformer", "VerifC08_ListenerWork", {"D": W(tier, 24, 40), "WA": 200000, "WB": 2000}, warmup="VerifWarmupParser")]
    out = engine_a_check("C08", tier, jobs, {"VerifC08_PrinterDegenerate": ["accepted", "rejected"], "VerifC08_ConditionsDegenerate": ["accepted", "rejected"], "VerifC15_Manifest": ["accepted", "rejected"],
                                             "VerifC16_SyntaxError": ["recorded"], "VerifC07_Merge": ["rejected"], "VerifC08_ListenerRecovery": ["walked"], "VerifC08_GraphDegenerate": ["accepted", "rejected"], "VerifC08_PlainGraphDegenerate": ["accepted"],
                                             "VerifC08_OddLines": ["declaration", "no-declaration"], "VerifC08_FreeLine": ["declaration", "no-declaration"],
                                             "VerifC08_BoundedWork": ["weighted-accepted", "plain-accepted"], "VerifC08_Growth": ["measured"], "VerifC08_PrinterWork": ["printed"], "VerifC08_MergeWork": ["merged", "rejected"], "VerifC08_ListenerWork": ["walked"]},
                         ["arbitrary bytes through the ANTLR lexer/parser, protojson and yaml.v3 are outside (not encoded); the complexity claim is decided for the two graph builders, the printer and the module merger (behind its parser stub) only, on families of layered/nested models whose path count is exponential in the depth while their size is linear (instructions executed by the executor <= A + B*n*n: graphs 100000 + 1000*n*n for n relations, the unchanged tree needs about 1400*n; printer 20000 + 200*n*n for n rewrite nodes, unchanged about 160*n; merge 50000 + 200*n*n for n declarations, unchanged about 340*n; listener walk over generated parse trees of nested expressions 200000 + 2000*n*n, unchanged about 1700*n); the lexer (form feeds) and parser are outside under the executor - natively the replay of the listener witnesses times the real ParseDSL",
                          "decided: no Go run-time panic on any explored path of the hand-written code (panic monitor)"], "",
                         bounds={"printer": "degenerate rewrite trees <= %d nodes (nil children, unset oneofs, operators without operands), nil metadata/restrictions/type definitions, 7 degenerate condition shapes" % W(tier, 4, 5),
                                 "fga.mod": "arbitrary yaml node kinds (stub)",
                                 "line lookups": "lines cut out of a declaration at any character, 5 indents, 4 blank runs, <= %d arbitrary characters behind; every line of length <= %d over {t,y,p,e,a,blank,tab}" % (W(tier, 1, 2), W(tier, 6, 8)),
                                 "lexer": "every recursive lexer rule of the ATN (unit ambiguity, any word length)",
                                 "work": "graphs: 8 layered families (union/intersection/exclusion/tuple-to-userset diamonds, userset and tuple cycles), depth 1..%d; printer: 12 nestings (alternating operators, one operator throughout; nested operand first or second), depth 1..%d; merge: 1..%d module files, with and without a conflict per file; listener: 6 nestings of parenthesised expressions, depth 1..%d, plus as many relations and conditions" % (W(tier, 16, 40), W(tier, 24, 48), W(tier, 12, 24), W(tier, 24, 40))})
    lexer_work(out, "C08")
    out.finish()


# ---- weighted graph (C04, C05, C06, C10, C11): one family harness, MODE selects the assertions
def M(*ks):
    return sum(1 << k for k in ks)


# leaf indices (harness/graph/family.go): 0 [user] 1 [user,employee] 2 [user:*] 3 [employee:*] 4 [doc#y] 5 [doc#z] 6 [doc#x]
# 7 [user,doc#y] 8 [doc#y,user] 9 [doc#y,doc#z] 10 [doc#z,doc#y,user] 11 [doc#y,user:*] 12 [employee:*,doc#y] 13 [doc#y with k,user]
# 14 [user,user with k] 15 [employee,user:* with k,user,user with k] | 16 y 17 z 18 x 19 y from p 20 z from p 21 x from p
THIS_ALL = M(*range(16))
NON_ALL = M(*range(16, 22))
LEAVES_ALL = THIS_ALL | NON_ALL
BASIC = M(0, 1, 2, 4, 6, 7, 15, 16, 18, 19, 21)    # the 11 leaves of the first family
CYC = M(0, 2, 4, 7, 16, 19, 21)
ROOT_ALL = dict(sched="all", sched_funcs=["AssignWeights"], sched_other="first", prune=True)
ROOT_ROT = dict(sched="rot", sched_funcs=["AssignWeights"], sched_other="first", prune=True)
ALL = dict(sched="all", prune=True)
FIRST = dict(sched="first")

FAMS = {
    # name: (params, description)
    "A": ({"R": 2, "L10": BASIC, "L11": BASIC}, "A: two relations, 11 basic leaves each (121 models)"),
    "B": ({"R": 2, "L10": BASIC, "L20": M(16, 18, 19, 21), "L11": BASIC}, "B: a = leaf | leaf op leaf (11 leaves x 4 second operands x or/and/but not), b = leaf (1573 models)"),
    "C": ({"R": 2, "L10": CYC, "L20": M(16, 18, 19, 21), "L11": M(0, 4, 7, 16, 19)}, "C: as B with 7/5 cycle-relevant leaves (455 models)"),
    "D": ({"R": 2, "L10": BASIC, "L20": M(16, 18, 19, 21), "L11": BASIC, "L21": M(16, 18, 19, 21)}, "D: a and b with operators (20449 models)"),
    "E": ({"R": 3, "L10": BASIC, "L11": BASIC, "L12": BASIC}, "E: three relations, 11 basic leaves each (1331 models)"),
    "P": ({"R": 2, "PARENTS": 2, "L10": CYC, "L20": M(16, 18, 19, 21), "L11": M(0, 4, 7, 16, 19)}, "P: as C with tupleset p: [doc, org]"),
    # rich families (R = 3)
    "G": ({"R": 3, "L10": LEAVES_ALL, "L11": M(0, 1), "L21": M(16, 17), "L12": M(0, 1), "L22": M(16, 17)},
          "G: a = any of 22 leaves, b and c = [user]|[user,employee] optionally op (y|z) (22 x 14 x 14 = 4312 models)"),
    "H": ({"R": 2, "L10": LEAVES_ALL, "L11": LEAVES_ALL}, "H: two relations, all 22 leaves each (incl. multi-userset, wildcard+userset, conditioned restrictions) (400 models after de-duplication)"),
    "J": ({"R": 2, "PARENTS": 3, "L10": M(0, 16, 19, 21), "L20": M(16, 19), "L11": M(0, 1, 4, 19)}, "J: tupleset p: [doc, doc with k, org] (duplicate conditioned parent followed by another parent)"),
    "J4": ({"R": 2, "PARENTS": 4, "L10": M(0, 16, 19, 21), "L20": M(16, 19, 21), "L11": M(0, 1, 4, 19)}, "J4: tupleset p: [org, org with k, doc] (the own type listed after a duplicate conditioned parent)"),
    "J5": ({"R": 2, "PARENTS": 5, "L10": M(0, 16, 19, 21), "L20": M(16, 19), "L11": M(0, 1, 4, 19)}, "J5: tupleset p: [doc, doc with k, bare] (last parent type defines no relation)"),
    "J8": ({"R": 2, "PARENTS": 8, "L10": M(0, 16, 19, 21), "L20": M(16, 19), "L11": M(0, 1, 4, 19)}, "J8: tupleset p: [doc, org, doc with k] (the same parent type twice with another one in between)"),
    "NA": ({"R": 2, "L10": M(0, 25), "L20": M(16, 19), "REV0": 1, "L11": M(0, 4)}, "NA: a = [user] | [user, doc#b, user with k] (the same target twice, not next to each other), optionally op b / b from p in either order; b = [user] | [doc#a]"),
    "J7": ({"R": 2, "PARENTS": 7, "L10": M(0, 16), "L20": M(19, 21), "L11": M(0, 19)},
           "J7: the tupleset p is `define p: a` with an empty, non-nil list of type restrictions (as the DSL transformer builds it); a = [user] | b, optionally op (b from p | a from p), b = [user] | a from p"),
    "J6": ({"R": 2, "PARENTS": 6, "L10": M(0, 16, 19, 21), "L20": M(16, 19), "L11": M(0, 1, 4, 19)}, "J6: tupleset p: [bare, doc] (a parent type that defines no relation listed in front of the own type)"),
    "K": ({"R": 2, "L10": M(0, 1, 7, 8, 13, 14, 15), "L20": M(16, 19), "REV0": 1, "L11": M(0, 4, 16)}, "K: swapped operand order (computed userset before the direct assignment), conditioned/duplicate restrictions"),
    "N": ({"R": 3, "L10": M(16, 17), "L20": M(16, 17), "OP0": 2, "L11": M(0, 1), "L21": M(21), "OP1": 1, "L12": M(0, 1)},
          "N: a = y | z | y and z | z and y, b = [user]|[user,employee] optionally `or b from p` (recursive), c = [user]|[user,employee] (48 models)"),
    "Q": ({"R": 3, "NEST0": 1, "L11": M(0, 1), "L12": M(0, 1, 2)},
          "Q: a = (A1 op1 A2) op (B1 op2 B2) with operands from {[user],[user,employee],y,z}, all 27 operator triples; b, c leaves (2592 models)"),
    "Q3": ({"R": 3, "NEST0": 3, "L11": M(0), "L12": M(0, 1)},
           "Q3: a = ((A1 in A2) mid A3) top ((B1 in B2) mid B3), three operator levels with same-kind cousins at the same depth and position, all 27 operator triples, operands [user], b, c (864 models); b = [user], c = [user]|[user,employee]"),
    "Q2": ({"R": 3, "NEST0": 2, "NEST1": 2, "L12": M(0, 1)},
           "Q2: a and b = (A1 op1 A2) op B1 with A1 in {[user], y}, A2, B1 in {y, z}, all 9 operator pairs each; c = [user]|[user,employee] (nested operators of the same kind in two relations; 10368 models)"),
    "LP": ({"R": 3, "RELNAMES": 1, "L10": M(0, 4, 5, 9, 10, 16), "L11": M(0, 4, 5, 9, 10, 16, 17), "L12": M(0, 4, 5, 9, 10, 16, 17), "L22": M(16, 17), "OP2": 3},
           "LP: as L with the relations named v, vi, vie (names that are prefixes of each other)"),
    "HP": ({"R": 2, "RELNAMES": 1, "L10": LEAVES_ALL, "L11": LEAVES_ALL}, "HP: as H with the relations named v, vi"),
    "W": ({"R": 2, "L10": M(0, 16, 19), "L20": M(16, 19), "L11": M(0, 16)}, "W: a = [user] | b | b from p, optionally op (b | b from p) - parallel lines between the same two nodes; b = [user] | a (38 models)"),
    "WI": ({"R": 3, "L10": M(16), "L20": M(17), "L11": M(2, 3, 22), "L12": M(0, 1, 2)},
           "WI: a = b | b or c | b and c | b but not c with b in {[user:*], [employee:*], [user:*, employee:*]}, c in {[user], [user, employee], [user:*]} (an intersection/exclusion that removes a type whose public restriction stays reachable; 36 models)"),
    "WU": ({"R": 3, "L10": M(0, 11, 12), "L20": M(16, 17), "OP0": 1, "L11": M(0, 11, 12), "L21": M(16, 17), "OP1": 1, "L12": M(0, 11, 12), "L22": M(16, 17), "OP2": 1},
           "WU: three relations, each [user] | [doc#y, user:*] | [employee:*, doc#y], optionally `or y` / `or z` (tuple cycles through several union nodes with public types found above them; 729 models)"),
    "S1": ({"R": 2, "SINGLE0": 1, "DUPTHIS0": 1, "L10": M(0, 1, 4, 16, 19), "L20": M(16, 19), "L11": M(0, 4, 16)},
           "S1: a = leaf | leaf op second | union(leaf) | intersection(leaf) | union(union(leaf)) | union(leaf) op second (operators with ONE operand) | this op this (the direct assignment twice) - JSON-only shapes, b = [user] | [doc#a] | a"),
    "NC": ({"R": 2, "L10": M(0, 14, 24), "L11": M(0)},
           "NC: a = [user] | [user, user, user with k] | [user, user with none] (a condition named like the unconditioned marker), b = [user]"),
    "E0": ({"R": 2, "L10": M(0, 23), "L20": M(16), "REV0": 1, "L11": M(0, 1)},
           "E0: a = [user] | [] | ([user] | []) op b | b op ([user] | []) with [] a direct assignment without type restrictions (JSON only), b = [user] | [user, employee]"),
    "L": ({"R": 3, "L10": M(0, 4, 5, 9, 10, 16), "L11": M(0, 4, 5, 9, 10, 16, 17), "L12": M(0, 4, 5, 9, 10, 16, 17), "L22": M(16, 17), "OP2": 3},
          "L: three relations with multi-userset restrictions (interlocking tuple cycles)"),
}


def fam(mode, name, **kw):
    params = dict(FAMS[name][0], MODE=mode)
    return T("graph", "VerifGraph_Family", params, **kw)


FAMILY_TEXT = {k: v[1] for k, v in FAMS.items()}
GRAPH_ASSUME = ["models of the stated family only (type doc with relations a,b[,c] and tupleset p; user, employee terminal types)",
                "ulid.Make = fresh distinct id; math.Max on converted ints = ite",
                "goroutines are not modelled (concurrent builds are outside)",
                "schedule = iteration order of the maps ranged over in the named functions; skip-guard reduction for `for k := range m { if visited[k] { continue } ... }` (exact, see DESIGN 2.2)"]


def graph_check(pid, mode, tier, quick, thorough, extra_jobs=(), reach=None):
    spec = quick
    if tier != "quick":
        # thorough = its own list plus every quick job whose family it does not already have (a superset of the quick tier)
        spec = list(thorough) + [q for q in quick if q[0] not in [t[0] for t in thorough]]
    jobs = list(extra_jobs)
    bounds = {}
    for name, pol, polname in spec:
        jobs.append(fam(mode, name, **pol))
        bounds["family " + name + " under " + polname] = FAMILY_TEXT[name]
    rr = {"VerifGraph_Family": reach or ["accepted"]}
    for j in extra_jobs:
        rr[j["harness"]] = j.pop("_reach", [])
    out = engine_a_check(pid, tier, jobs, rr, GRAPH_ASSUME, "", bounds=bounds, repeat_native=1)
    out.finish()


def kernels():
    return [dict(T("graph", "VerifC04_KernelIntersection", {"E": 2, "KEYS": 2}, **ALL), _reach=["accepted", "rejected"]),
            dict(T("graph", "VerifC04_KernelUnion", {"E": 2}, **ALL), _reach=["checked"]),
            dict(T("graph", "VerifC04_KernelExclusion", {}, **ALL), _reach=["checked"]),
            dict(T("graph", "VerifC04_KernelEdge", {}, **ALL), _reach=["checked"])]


RA, RR, FI, AL = (ROOT_ALL, "all root orders of AssignWeights"), (ROOT_ROT, "every start node of AssignWeights (rotations + reverse)"), (FIRST, "first order"), (ALL, "all orders of all maps")
THOROUGH_GRAPH = [("J4", *RR), ("J5", *RR), ("J6", *RR), ("Q", *RR), ("N", *RA), ("B", *RA), ("D", *FI), ("E", *RA), ("P", *RA), ("A", *AL), ("G", *RR), ("H", *RA), ("K", *RA), ("L", *RA), ("J", *RR)]


def c04(tier):
    graph_check("C04", 4, tier, [("B", *FI), ("J", *FI), ("J4", *FI), ("K", *FI), ("Q", *FI), ("Q2", *FI), ("N", *RA), ("H", *RR), ("L", *RR), ("LP", *RR), ("C", *RA), ("S1", *FI), ("E0", *FI)], THOROUGH_GRAPH, extra_jobs=kernels())


def c05(tier):
    graph_check("C05", 5, tier, [("A", *AL), ("B", *FI), ("J", *FI), ("J4", *FI), ("J5", *FI), ("J6", *FI), ("Q", *FI), ("G", *RR), ("L", *RR), ("H", *RR), ("S1", *RR), ("LP", *RR), ("E0", *RR), ("J7", *FI)], THOROUGH_GRAPH, reach=["return"])


def c06(tier):
    twin = lambda name: dict(T("graph", "VerifC06_OperandOrder", dict(FAMS[name][0]), **FIRST), _reach=["accepted"])  # noqa
    graph_check("C06", 6, tier, [("A", *AL), ("C", *RA), ("H", *RR), ("L", *RR), ("K", *RR), ("LP", *RR), ("HP", *RR)], THOROUGH_GRAPH, reach=["return"],
                extra_jobs=[twin("B"), twin("K"), twin("N"), dict(T("graph", "VerifC13_GraphHistory"), _reach=["built"])] + ([twin("D")] if tier == "thorough" else []) +
                [dict(T("graph", "VerifC06_Names", {}, sched="rot", sched_funcs=["AssignWeights", "WeightedAuthorizationModelGraphBuilder"], sched_other="first", prune=True), _reach=["accepted", "rejected"])])


def c10(tier):
    api = dict(T("graph", "VerifC10_PublicAPI"), _reach=["checked"])
    graph_check("C10", 10, tier, [("B", *FI), ("P", *FI), ("J", *FI), ("J4", *FI), ("J5", *FI), ("J6", *FI), ("K", *FI), ("H", *FI), ("G", *FI), ("Q", *FI), ("Q2", *FI), ("S1", *FI), ("W", *FI), ("NC", *FI), ("Q3", *FI), ("J8", *FI), ("NA", *FI)], [("D", *FI), ("E", *FI), ("P", *RA), ("L", *FI), ("G", *FI), ("H", *FI), ("J", *FI), ("K", *FI)], extra_jobs=[api])


def c11(tier):
    pub = dict(T("graph", "VerifC11_PublicTypes", {"MODE": 11}, **ROOT_ROT), _reach=["accepted"])
    graph_check("C11", 11, tier, [("B", *FI), ("C", *RA), ("H", *RR), ("L", *RR), ("WI", *RR), ("WU", *RR)], THOROUGH_GRAPH + [("WI", *RA), ("WU", *RA)], extra_jobs=[pub])


def c19(tier):
    from atnre import c19 as eb
    out = Outcome("C19", tier)
    out.level = "proof"
    known = load_known()
    try:
        obligations, direct, stats = eb.run(tier)
    except Exception as e:  # noqa
        import traceback
        out.engine_errors.append("engine B failed: %r %s" % (e, traceback.format_exc()[-400:]))
        out.coverage.update({"obligations": 0, "discharged": 0, "checker_cmd": "z3-new -in", "trusted_base": []})
        out.finish()
    discharged = 0
    for o in obligations:
        if o["verdict"] == "unsat":
            discharged += 1
        elif o["verdict"] == "sat":
            what = "C19/%s: languages differ, witness: %s" % (o["name"], o["witness"])
            if match_known(known, "C19", None, o["name"], ""):
                out.known.append(what)
                discharged += 1
            else:
                out.violations.append((what, save_replay("C19", {"harness": "C19-obligation", "inputs": [], "obligation": o["name"], "witness": o["witness"]})))
        else:
            out.inconclusive.append("obligation %s: %s %s" % (o["name"], o["verdict"], o.get("witness")))
    for name, ok, detail in direct:
        if not ok:
            what = "C19/%s %s" % (name, detail)
            out.violations.append((what, save_replay("C19", {"harness": "C19-direct", "inputs": [], "check": name, "detail": detail})))
    out.coverage.update({
        "obligations": len(obligations), "discharged": discharged,
        "checker_cmd": "z3-new -in  (z3 5.1.0; per rule two queries (assert (str.in_re x (re.diff A B))) (check-sat), A/B = shallow rule languages over character minterms / token types / rule-call letters)",
        "trusted_base": ["z3 5.1.0 sequence/regex solver", "ATN v4 deserialiser and state elimination in atnre/atn.py", ".g4 subset parser in atnre/g4.py", "shallow-language argument (grammars without left recursion), DESIGN section 3"],
        "samples": [o["name"] for o in obligations[:3]] + [d[0] for d in direct[:3]],
        "direct_comparisons": len(direct), "direct_comparisons_failed": [d[0] for d in direct if not d[1]],
        "stats": stats, "exhaustive": discharged == len(obligations),
        "bounds": "no bound on word length; all %d parser and %d lexer rules; six serialized ATNs and six .interp dumps" % (stats["parser_rules"], stats["lexer_rules"]),
    })
    out.assumptions = ["generated recursive-descent code beyond the embedded ATN and name tables is outside", "the JS and Java parsers are not run"]
    out.finish()


def grammar_facts(out, pid):
    """Engine B obligations of property pid on the ATN the Go parser/lexer interpret."""
    from atnre import facts
    known = load_known()
    try:
        results, stats = facts.run()
    except Exception as e:  # noqa
        import traceback
        out.engine_errors.append("engine B (grammar facts) failed: %r %s" % (e, traceback.format_exc()[-300:]))
        return
    mine = [r for r in results if r["property"] == pid]
    discharged = 0
    for r in mine:
        if r["verdict"] == "unsat":
            discharged += 1
        elif r["verdict"] == "sat":
            what = "%s/grammar: %s - counterexample: %s" % (pid, r["name"], r["witness"])
            if match_known(known, pid, None, r["name"], ""):
                out.known.append(what)
            else:
                out.violations.append((what, save_replay(pid, {"harness": "grammar-obligation", "inputs": [], "obligation": r["name"], "witness": r["witness"]})))
        else:
            out.inconclusive.append("grammar obligation %s: %s" % (r["name"], r["verdict"]))
    out.coverage["grammar_obligations"] = {"obligations": len(mine), "discharged": discharged, "names": [r["name"] for r in mine],
                                           "checker_cmd": "z3-new -in (RegLan emptiness of re.diff per inclusion, no bound on word length)",
                                           "on": "serialized ATN in pkg/go/gen/openfga_parser.go / openfga_lexer.go (state elimination per rule)", "stats": stats}


def lexer_work(out, pid):
    """Engine B + native timing: recursive lexer rules with ambiguous units (cubic lexing), see atnre/lexwork.py."""
    from atnre import lexwork
    known = load_known()
    try:
        results, stats = lexwork.run()
    except Exception as e:  # noqa
        import traceback
        out.engine_errors.append("engine B (lexer work) failed: %r %s" % (e, traceback.format_exc()[-300:]))
        return
    for r in results:
        label = "lexer-rule-%s-unit-ambiguity" % r["rule"]
        what = "%s/lexer: rule %s: %s" % (pid, r["rule"], r["detail"])
        if r["verdict"] == "ambiguous-confirmed":
            k = match_known(known, pid, "lexer-work", label, "")
            if k:
                out.known.append(k["what"] + " [this run: " + r["detail"] + "]")
            else:
                out.violations.append((what, save_replay(pid, {"harness": "lexer-work", "inputs": [], "rule": r["rule"], "unit": r.get("w"), "timing_s": r.get("timing_s")})))
        elif r["verdict"] == "ambiguous-unconfirmed":
            out.unconfirmed.append(what)
        elif r["verdict"] != "unambiguous":
            out.inconclusive.append("lexer rule %s: %s (%s)" % (r["rule"], r["verdict"], r["detail"]))
    out.coverage["lexer_work"] = {"recursive_lexer_rules": stats["recursive"], "lexer_rules": stats["rules"], "queries": stats["queries"], "solver_s": round(stats["solver_s"], 3),
                                  "results": [{k: v for k, v in r.items() if k in ("rule", "verdict", "detail", "timing_s")} for r in results],
                                  "method": "per recursive lexer rule of the serialized ATN: tail position of the self call (RegLan emptiness) and existence of a unit that is also two units (word equation + RegLan memberships, z3 5.1.0, no length bound); witness pumped through the real generated lexer (50/100/200 repetitions)",
                                  "outside": "non-recursive lexer rules are matched by ANTLR's cached DFA (linear); ambiguities between more than two units and the parser's adaptive prediction are not analysed"}


PARSER_STUB = ["lexer+parser are replaced by the grammar-conforming parse tree of the generated document, built from the real generated context classes (parser stub, DESIGN 5.3); the real walker, listener and error plumbing are executed; the contract 'the parser maps the text to this tree' is validated natively on the replayed witnesses (real ParseDSL on the text)",
               "documents: one relation under test with the full expression shape up to the stated size, sibling relation, second type, conditions; names symbolic over {a,b,c,_}"]


def LJ(harness, tier, **params):
    base = {"N": 1, "NODES": 2, "DEPTH": 1, "SIBLINGS": 1, "CONDS": 1}
    base.update(params)
    return T("transformer", harness, base, warmup="VerifWarmupParser", sample_witnesses=W(tier, 30, 150))


def LJS(harness, tier, **params):
    """Listener job whose ParseDSL calls (inside the Transform* entry points) go to the parser stub."""
    j = LJ(harness, tier, **params)
    j["redirects"] = {"github.com/openfga/language/pkg/go/transformer.ParseDSL": "verifParseDSLStub"}
    return j


SHAPES = dict(SIBLINGS=0, CONDS=0, FIXLAYOUT=1)
NAMES = dict(NODES=1, DEPTH=0, SIBLINGS=1, CONDS=1, FIXLAYOUT=1, PARAMS=2, N=2)


def c01(tier):
    jobs = [LJ("VerifC01_RoundTrip", tier, NODES=W(tier, 4, 5), DEPTH=W(tier, 1, 2), **SHAPES), LJ("VerifC01_RoundTrip", tier, **NAMES),
            LJ("VerifC01_RoundTrip", tier, NODES=2, CONDS=W(tier, 1, 2)),
            LJ("VerifC01_RoundTrip", tier, CHAIN=W(tier, 9, 16), **SHAPES),
            LJ("VerifC01_RoundTrip", tier, NODES=1, DEPTH=0, SIBLINGS=0, CONDS=1, FIXLAYOUT=1, PARAMS=2, PTYPES=1),
            LJ("VerifC01_RoundTrip", tier, NODES=1, DEPTH=0, SIBLINGS=0, CONDS=1, FIXLAYOUT=1, PARAMS=1, EXPRS=1),
            # a document without types (header and conditions only)
            LJ("VerifC01_RoundTrip", tier, NODES=1, DEPTH=0, SIBLINGS=0, CONDS=2, FIXLAYOUT=1, NOTYPES=1, N=1),
            # relation names that differ in letter case only, every iteration order of the printer's maps
            dict(LJ("VerifC01_RoundTrip", tier, NODES=1, DEPTH=0, SIBLINGS=1, CONDS=0, FIXLAYOUT=1, CASE=1, N=W(tier, 1, 2)), sched="all", prune=True),
            LJS("VerifC01_JSONAPI", tier, NODES=W(tier, 3, 4), DEPTH=1, **SHAPES), LJS("VerifC01_JSONAPI", tier, **NAMES),
            LJS("VerifC01_JSONAPI", tier, NODES=1, DEPTH=0, SIBLINGS=0, CONDS=1, FIXLAYOUT=1, PARAMS=2, PTYPES=1)]
    out = engine_a_check("C01", tier, jobs, {"VerifC01_RoundTrip": ["rendered", "stable"], "VerifC01_JSONAPI": ["rendered", "stable"]},
                         PARSER_STUB + ["condition expressions come from a menu of token sequences without '#' (comparison, wrapped lines, modulo, string literals with percent signs)", "the JSON string API differs from the direct hand-over only by protojson (not encoded)"], "",
                         bounds={"shapes": "expression trees with <= %d operands in total, parenthesis depth <= %d, redundant parentheses <= 2 pairs, 4 restriction lists" % (W(tier, 4, 5), W(tier, 1, 2)),
                                 "names": "type / relation / sibling / condition names symbolic, length <= 2"})
    out.finish()


def c03(tier):
    jobs = [T("transformer", "VerifC03_PrePass", {"N": W(tier, 6, 8), "ASCII": 1}), T("transformer", "VerifC03_PrePass", {"N": W(tier, 4, 5)}),
            T("transformer", "VerifC16_PrePassRunes"), LJ("VerifListener_Doc", tier, MODULES=1, NODES=W(tier, 3, 4), DEPTH=W(tier, 1, 2), SIBLINGS=0, CONDS=0),
            LJ("VerifListener_Doc", tier, MODULES=1, NODES=1, DEPTH=0, EXPRS=1), LJ("VerifListener_Doc", tier, CHAIN=W(tier, 9, 16), **SHAPES),
            LJ("VerifListener_Doc", tier, NODES=1, DEPTH=0, SIBLINGS=0, CONDS=1, FIXLAYOUT=1, PARAMS=2, PTYPES=1),
            LJ("VerifListener_Doc", tier, MODULES=1, MODNAMES=1, EXTEND=1, NODES=1, DEPTH=0, SIBLINGS=0, CONDS=1, FIXLAYOUT=1, PARAMS=1),
            # the parser stub itself: every generated tree is accepted, rule by rule, by the sub-automata of the ATN that the
            # Go parser interprets (CONFORM=1; smaller sizes, the membership test is interpreted as well)
            LJ("VerifListener_Doc", tier, CONFORM=1, NODES=W(tier, 2, 3), DEPTH=1, SIBLINGS=0, CONDS=0, N=1, FIXLAYOUT=W(tier, 1, 0)),
            LJ("VerifListener_Doc", tier, CONFORM=1, MODULES=1, EXTEND=1, NODES=1, DEPTH=0, SIBLINGS=0, CONDS=0, N=1),
            LJ("VerifListener_Doc", tier, CONFORM=1, NODES=1, DEPTH=0, SIBLINGS=0, CONDS=1, PARAMS=2, PTYPES=1, FIXLAYOUT=1, N=1),
            LJ("VerifListener_Doc", tier, CONFORM=1, NODES=1, DEPTH=0, SIBLINGS=0, CONDS=1, PARAMS=1, EXPRS=1, FIXLAYOUT=1, N=1),
            LJ("VerifListener_Doc", tier, CONFORM=1, CHAIN=W(tier, 5, 8), N=1, **SHAPES)]
    out = engine_a_check("C03", tier, jobs, {"VerifC03_PrePass": ["lemmas-checked"], "VerifC16_PrePassRunes": ["lemmas-checked"], "VerifListener_Doc": ["accepted"]},
                         PARSER_STUB + ["the ANTLR runtime's conformance to its ATN is outside (residual): that the runtime accepts every document the ATN admits and builds the tree the grammar dictates"], "",
                         bounds={"pre-pass": "all strings over 0x00..0x7f of length <= %d, all byte strings (every value 0..255) of length <= %d, comments with non-ASCII text from a menu" % (W(tier, 6, 8), W(tier, 4, 5)), "grammar facts": "no bound (regular-language inclusions on the ATN)"})
    grammar_facts(out, "C03")
    out.finish()


def c09(tier):
    jobs = [LJ("VerifListener_Doc", tier, NODES=1, DEPTH=0, SIBLINGS=0, CONDS=2, PARAMS=1, EXPRS=2, FIXLAYOUT=1, N=1),
            LJ("VerifListener_Doc", tier, MODULES=1, EXTEND=1, NODES=1, DEPTH=0, FIXLAYOUT=1, N=W(tier, 1, 2)), LJ("VerifListener_Doc", tier, MODULES=1, CONDS=2, NODES=1, DEPTH=0, FIXLAYOUT=1, N=W(tier, 1, 2))]
    out = engine_a_check("C09", tier, jobs, {"VerifListener_Doc": ["accepted", "rejected"]},
                         PARSER_STUB + ["that the ANTLR runtime reports every deviation from the ATN as an error is outside (residual)"], "",
                         bounds={"listener rules": "duplicate relation / condition / parameter, extend under a model header, repeated extend: which names collide is the solver's choice",
                                 "grammar rules": "no bound (regular-language inclusions on the ATN)"})
    grammar_facts(out, "C09")
    out.finish()


MERGE_ASSUME = ["TransformModularDSLToProto (lexer+parser+listener) is replaced by a stub returning the listener result for the generated declarations; the contract is validated natively on every replayed witness",
                "file layout: header, one declaration per line as printed by the harness; names over {a,b}"]


def merge_jobs(tier, harness, pols):
    jobs = []
    n = W(tier, 2, 2)
    for scen, extra in ((1, {"SEPS": 1, "CRLF": 1}), (2, {"SAMEMOD": 1}), (3, {"N": 1, "NR": 2}), (4, {}), (5, {"NR": 2}), (0, {"F": 2, "DECLS": W(tier, 3, 4), "RELS": W(tier, 1, 2), "CONDS": 1, "FAULTS": 0}),
                        (0, {"F": 2, "DECLS": 2, "RELS": 1, "CONDS": 1, "FAULTS": 1, "N": 1, "CRLF": 1})):
        params = dict({"SCEN": scen, "N": n, "NR": 1}, **extra)
        jobs.append(T("transformer", harness, params, **pols))
    return jobs


MERGE_LISTENER_RED = {"github.com/openfga/language/pkg/go/transformer.ParseDSL": "verifMergeParseStub",
                      "github.com/openfga/language/pkg/go/transformer.TransformModularDSLToProto": ""}


def merge_listener_jobs(tier, harness, pols, which=(0, 1, 2, 3)):
    """The merge with the REAL per-file transform (TransformModularDSLToProto + listener over the generated parse tree
    of each file; only lexer+parser are stubbed): the two sites that cooperate - what the listener hands out for a
    model / module file and what the merger concludes from it - are executed together."""
    scen = [(0, {"F": 2, "DECLS": 2, "RELS": 1, "CONDS": 1, "FAULTS": 1, "N": 1}),
            (0, {"F": 2, "DECLS": W(tier, 3, 4), "RELS": 1, "CONDS": 1, "FAULTS": 0, "N": W(tier, 1, 2)}),
            (2, {"N": W(tier, 1, 2)}), (1, {"N": W(tier, 1, 2)})]
    jobs = []
    for i in which:
        sc, extra = scen[i]
        j = T("transformer", harness, dict({"SCEN": sc, "N": 1, "NR": 1, "LISTENER": 1}, **extra), warmup="VerifWarmupParser",
              sample_witnesses=W(tier, 20, 80), redirects=MERGE_LISTENER_RED, **pols)
        jobs.append(j)
    return jobs


MERGE_BOUNDS = {"LISTENER=1": "the same scenarios with the real TransformModularDSLToProto and listener over generated parse trees (parser stub only)",
                "SCEN 5": "a base type with two relations, one file with two extension blocks, the second declaring two relations (0-2 conflicts in either textual order)",
                "SCEN 3": "two base types with a relation each, two files each extending a type (all names symbolic)",
                "SCEN 4": "one extension block with two relations whose names may be prefixes of each other, on a type that already has relations",
                "SCEN 1": "base type + two/three extensions in 2-3 files, names symbolic (length <= 2 types, 1 relations)",
                "SCEN 2": "relation-less base type, two extending files, optional conditions",
                "SCEN 0": "2-3 files, global budget of declarations/relations/conditions as in per_harness params, every name symbolic; FAULTS=1 adds model headers and syntax errors"}


def c07(tier):
    # the clause "every file parses as a module" rests on every error the lexer/parser reports being
    # recorded by the error listener (the per-file parse itself is behind the stub): VerifC16_SyntaxError
    jobs = merge_jobs(tier, "VerifC07_Merge", FIRST) + merge_listener_jobs(tier, "VerifC07_Merge", FIRST) + [T("transformer", "VerifC16_SyntaxError")]
    out = engine_a_check("C07", tier, jobs, {"VerifC07_Merge": ["accepted", "rejected"], "VerifC16_SyntaxError": ["recorded"]}, MERGE_ASSUME, "", bounds=MERGE_BOUNDS)
    out.finish()


def c12(tier):
    jobs = merge_jobs(tier, "VerifC12_Deterministic", ALL)[:6] + merge_jobs(tier, "VerifC12_Permuted", FIRST)[:6] + merge_listener_jobs(tier, "VerifC12_Permuted", FIRST, which=(2,))
    out = engine_a_check("C12", tier, jobs, {"VerifC12_Deterministic": ["accepted", "rejected"], "VerifC12_Permuted": ["accepted", "rejected"]},
                         MERGE_ASSUME + ["every iteration order of the maps ranged over in module-to-model.go (self-composition: two merges, independent orders)"], "", bounds=MERGE_BOUNDS)
    out.finish()


# ---- C17: the plain gonum-backed graph
C17_SCHED = dict(sched="all", sched_funcs=["parseModel"], sched_other="first", prune=True,
                 sched_scope=["NewAuthorizationModelGraph", "AuthorizationModelGraph).Reversed", "AuthorizationModelGraph).GetDOT"],
                 sched_deps=["mapIterKeysLines"], init_allow=["gonum.org/v1/gonum/graph/encoding/dot"])
# small models: also the order in which gonum walks its node and edge maps (rotations)
C17_WIDE = dict(sched="rot", sched_funcs=["parseModel"], sched_other="first", prune=True,
                sched_scope=["AuthorizationModelGraph).Reversed"],
                sched_deps=["mapIterKeys", "DirectedGraph).Edges"], init_allow=["gonum.org/v1/gonum/graph/encoding/dot"])


def c17(tier):
    def J(h, famname, pol=C17_SCHED, **extra):
        return T("graph", h, dict(FAMS[famname][0], **extra), **pol)
    q = tier == "quick"
    jobs = [J("VerifC17_Faithful", "A"), J("VerifC17_Faithful", "B"), J("VerifC17_Faithful", "H"), J("VerifC17_Faithful", "J"), J("VerifC17_Faithful", "J5"), J("VerifC17_Faithful", "J6"), J("VerifC17_Faithful", "J4"), J("VerifC17_Faithful", "K"), J("VerifC17_Faithful", "S1"), J("VerifC17_Faithful", "Q3"), J("VerifC17_Faithful", "J8"), J("VerifC17_Faithful", "NA"),
            J("VerifC17_Reversed", "A", PAIRS=4, WINDOWS=3), J("VerifC17_Reversed", "W", PAIRS=4, WINDOWS=3), J("VerifC17_Reversed", "N", PAIRS=4, WINDOWS=3),
            J("VerifC17_Stable", "W", C17_WIDE),
            J("VerifC17_Stable", "A"), J("VerifC17_Stable", "B"), J("VerifC17_Stable", "N"), T("graph", "VerifC17_StableNames", {}, **C17_SCHED),
            J("VerifC17_Cycles", "A"), J("VerifC17_Cycles", "C"), J("VerifC17_Cycles", "H"),
            T("graph", "VerifC17_Lookup", dict(FAMS["A"][0], LEN=W(tier, 6, 8)), init_allow=["gonum.org/v1/gonum/graph/encoding/dot"]),
            T("graph", "VerifC17_Lookup", dict(FAMS["H"][0], LEN=W(tier, 6, 8)), init_allow=["gonum.org/v1/gonum/graph/encoding/dot"])]
    if not q:
        jobs += [J("VerifC17_Faithful", "Q"), J("VerifC17_Faithful", "Q2"), J("VerifC17_Faithful", "G"), J("VerifC17_Faithful", "E"), J("VerifC17_Faithful", "L"), J("VerifC17_Faithful", "P"),
                 J("VerifC17_Reversed", "C", PAIRS=4, WINDOWS=3), J("VerifC17_Reversed", "B", PAIRS=4, WINDOWS=3), J("VerifC17_Reversed", "H", PAIRS=4, WINDOWS=3), J("VerifC17_Stable", "A", C17_WIDE),
                 J("VerifC17_Stable", "H"), J("VerifC17_Stable", "G"), J("VerifC17_Stable", "Q"),
                 J("VerifC17_Cycles", "E"), J("VerifC17_Cycles", "B")]
    out = engine_a_check("C17", tier, jobs,
                         {"VerifC17_Faithful": ["built"], "VerifC17_Reversed": ["reversed", "paths"], "VerifC17_Stable": ["rendered"], "VerifC17_StableNames": ["rendered"], "VerifC17_Lookup": ["found", "absent"], "VerifC17_Cycles": ["acyclic", "compile-time-cycle", "other-cycle"]},
                         ["models of the stated families only (type doc with relations a,b[,c] and tupleset p; user, employee terminal types; well-formed rewrites)",
                          "gonum (multi.DirectedGraph, topo, encoding/dot) is executed as it is, except its map iterator: graph/iterator/map.go (unsafe + go:linkname into the runtime) is replaced, for the executor and for the native replay alike, by harness/dep/gonum_iterator/map.go - same unexported interface, entries produced in the order of a plain `range`",
                          "schedule = every order of the relations map in parseModel and of every map of parallel lines gonum iterates inside NewAuthorizationModelGraph/Reversed/GetDOT, and ascending or descending ULIDs; the 'wide' jobs also rotate gonum's node and edge maps inside Reversed; other map iterations take insertion order",
                          "ulid.Make = fresh distinct id; sort.Slice = stable insertion sort on the interpreted less function; regexp (DOT identifier quoting) evaluated by the host on concrete strings",
                          "edge conditions are compared only through the reversal (the property does not state them for the build); classification of cycles other than pure computed ones is left open by the property",
                          "path duality: all pairs of labels (sources in windows of PAIRS labels, every window explored when there are at most 12 labels) plus a label that does not exist"], "",
                         repeat_native=40,
                         bounds={"label lookup": "every byte string of length <= %d as the label (solver-decided which node it names)" % W(tier, 6, 8),
                                 "names": "three relations named by any 3 of {a, A, b, ab, B, a_b, aB} (names that differ in case only or are prefixes of each other), 3 operators",
                                 "families": ", ".join(sorted(set(FAMILY_TEXT[n] for n in ("A", "B", "C", "H", "J", "J4", "J5", "J6", "K", "N", "W") + (() if q else ("Q", "Q2", "G", "E", "L", "P")))))})
    out.finish()


REGISTRY = {"C01": c01, "C09": c09, "C19": c19, "C07": c07, "C12": c12, "C15": c15, "C18": c18, "C16": c16, "C14": c14, "C03": c03, "C02": c02, "C13": c13, "C08": c08,
            "C04": c04, "C05": c05, "C06": c06, "C10": c10, "C11": c11, "C17": c17}


def main():
    args = sys.argv[1:]
    if not args:
        log(__doc__)
        sys.exit(2)
    if args[0] == "--replay":
        w = json.load(open(args[1]))
        pkg = None
        for sub in os.listdir(HARNESS):
            if sub != "zzverif" and os.path.isdir(os.path.join(HARNESS, sub)) and w["harness"] in harness_funcs(sub):
                pkg = sub
        if pkg is None:
            log("no native replay for", w.get("harness"))
            sys.exit(2)
        ev = native_replay(pkg, [w], repeat=int(os.environ.get("VERIF_REPEAT", "1")))
        log(json.dumps(ev[0], indent=1))
        fails = [e for e in (ev[0] or []) if e["kind"] == "assert-fail"]
        sys.exit(1 if fails else 0)
    if args[0] == "--adhoc":
        # development aid: check.py --adhoc <PID> '<json list of jobs>' [required reach json]; evidence and replays go to /tmp
        os.environ.setdefault("VERIF_EVIDENCE_DIR", "/tmp/adhoc-evidence")
        os.environ.setdefault("VERIF_REPLAY_DIR", "/tmp/adhoc-replays")
        os.environ["VERIF_TIER_CUR"] = os.environ.get("VERIF_TIER", "quick")
        jobs = json.loads(args[2])
        for j in jobs:
            j.setdefault("workers", NCPU)
            j.setdefault("deadline_s", 600)
            j.setdefault("record_asserts", 4)
        out = engine_a_check(args[1], os.environ["VERIF_TIER_CUR"], jobs, json.loads(args[3]) if len(args) > 3 else {}, [], "")
        for h, ph in out.coverage.get("per_harness", {}).items():
            log("  %s paths=%s reach=%s wall=%s exhaustive=%s" % (h, ph["paths"], ph["reach"], ph["wall_s"], ph["exhaustive"]))
        out.finish()
    pid = args[0]
    tier = os.environ.get("VERIF_TIER", "quick")
    if "--tier" in args:
        tier = args[args.index("--tier") + 1]
    os.environ["VERIF_TIER_CUR"] = tier
    if pid not in REGISTRY:
        log("unknown property", pid)
        sys.exit(2)
    REGISTRY[pid](tier)


if __name__ == "__main__":
    main()
