"""Consistency of the generated Go recursive-descent code with the ATN it carries (C19, direct comparison,
not a solver result): at every `p.SetState(N)` of openfga_parser.go

  * a following `p.Match(TOKEN)` needs a transition on TOKEN out of ATN state N,
  * a following rule call `p.Rule()` needs a RULE transition to that rule out of N,
  * every token the code tests on the lookahead (`_la == T`, `case T`, bit-set tests) before the next
    SetState has to be in the context-free lookahead set LOOK(N) of the ATN (what ANTLR's LL(1) analysis
    can produce at N, including what follows the enclosing rule at any call site).

A hand edit of a token guard or of a match in the generated parser breaks one of these."""
import os
import re

from . import atn as A

REPO = os.environ.get("VERIF_REPO", "/repo")


def look(a, n, cache):
    """context-free lookahead tokens from ATN state n (token ids; -1 = EOF)."""
    if n in cache:
        return cache[n]
    toks = set()
    seen = set()
    stack = [n]
    callers = {}
    for e in a.edges:
        if e[2] == A.RULE:
            callers.setdefault(e[4], []).append(e[1])   # rule index -> follow states
    stop_rule = {s: r for r, s in a.rule_stop.items()}
    while stack:
        s = stack.pop()
        if s in seen:
            continue
        seen.add(s)
        if s in stop_rule:
            fs = callers.get(stop_rule[s], [])
            if not fs:
                toks.add(-1)
            stack.extend(fs)
            continue
        for e in a.out.get(s, []):
            typ = e[2]
            if typ in (A.EPSILON, A.ACTION, A.PREDICATE, A.PRECEDENCE):
                stack.append(e[1])
            elif typ == A.RULE:
                stack.append(e[3])       # rule start state
                # (if the rule is nullable its stop state leads on to every follow state, incl. e[1])
            elif typ == A.ATOM:
                toks.add(-1 if e[5] else e[3])
            elif typ == A.RANGE:
                toks.update(range(e[3], e[4] + 1))
            elif typ == A.SET:
                eof, iv = a.sets[e[3]]
                for lo, hi in iv:
                    toks.update(range(lo, hi + 1))
                if eof:
                    toks.add(-1)
            elif typ == A.NOT_SET:
                _, iv = a.sets[e[3]]
                excl = set()
                for lo, hi in iv:
                    excl.update(range(lo, hi + 1))
                toks.update(t for t in range(1, a.max_token_type + 1) if t not in excl)
            elif typ == A.WILDCARD:
                toks.update(range(1, a.max_token_type + 1))
    cache[n] = toks
    return toks


def run():
    path = os.path.join(REPO, "pkg/go/gen/openfga_parser.go")
    src = open(path).read()
    a = A.deserialize(A.extract_go(path))
    # token constants and rule names from the generated file itself
    tok = {}
    for m in re.finditer(r"^\s*OpenFGAParser([A-Za-z_0-9]+)\s*=\s*(\d+)\s*$", src, re.M):
        name, val = m.group(1), int(m.group(2))
        if not name.startswith("RULE_") and name != "EOF":
            tok[name] = val
    tok["EOF"] = -1
    rules = {}
    for m in re.finditer(r"^\s*OpenFGAParserRULE_(\w+)\s*=\s*(\d+)\s*$", src, re.M):
        rules[m.group(1)[0].upper() + m.group(1)[1:]] = int(m.group(2))
    results = []
    cache = {}
    state = None
    checked = 0
    lines = src.split("\n")
    infunc = False
    switches = []   # (indent, decision state) of the enclosing `switch ... LA(1)` statements
    for ln, line in enumerate(lines, 1):
        if line.startswith("func (p *OpenFGAParser) ") and "localctx" in line:
            infunc = True
            state = None
            switches = []
        if not infunc:
            continue
        indent = len(line) - len(line.lstrip("\t"))
        if re.match(r"\s*switch p\.GetTokenStream\(\)\.LA\(1\) \{", line):
            switches.append((indent, state))
            continue
        if switches and line.strip() == "}" and indent == switches[-1][0]:
            switches.pop()
            continue
        m = re.search(r"p\.SetState\((\d+)\)", line)
        if m:
            state = int(m.group(1))
            continue
        if state is None:
            continue
        mm = re.search(r"p\.Match\(OpenFGAParser(\w+)\)", line)
        if mm:
            t = tok.get(mm.group(1))
            ok = any((e[2] == A.ATOM and (-1 if e[5] else e[3]) == t) or
                     (e[2] == A.SET and any(lo <= t <= hi for lo, hi in a.sets[e[3]][1])) or
                     (e[2] == A.RANGE and e[3] <= t <= e[4])
                     for e in a.out.get(state, []))
            checked += 1
            if not ok:
                results.append(("Match(%s) at state %d (line %d) has no such transition in the ATN" % (mm.group(1), state, ln), False))
            continue
        mm = re.search(r"^\s*(?:localctx\.\(\*\w+\)\.\w+ = )?(?:var _x = )?p\.([A-Z]\w*)\(\)\s*$", line)
        if mm and mm.group(1) in rules:
            r = rules[mm.group(1)]
            ok = any(e[2] == A.RULE and e[4] == r for e in a.out.get(state, []))
            checked += 1
            if not ok:
                results.append(("call of %s() at state %d (line %d) has no RULE transition in the ATN" % (mm.group(1), state, ln), False))
            continue
        tested = set()
        if "_la <= 0 ||" in line:
            # inverted test of a `~X` element: the excluded token(s) must be the ATN's NOT_SET at this state
            excl = set(tok.get(mm.group(1)) for mm in re.finditer(r"_la == OpenFGAParser(\w+)", line))
            sets = [set(t for lo, hi in a.sets[e[3]][1] for t in range(lo, hi + 1)) for e in a.out.get(state, []) if e[2] == A.NOT_SET]
            checked += 1
            if excl not in sets:
                results.append(("negated match at state %d (line %d) excludes %s, the ATN's NOT_SET there is %s" % (state, ln, sorted(excl), [sorted(x) for x in sets]), False))
            continue
        for mm in re.finditer(r"(?:_la|p\.GetTokenStream\(\)\.LA\(1\)) [!=]= OpenFGAParser(\w+)", line):
            tested.add(tok.get(mm.group(1)))
        case_state = None
        if re.match(r"\s*case ", line) and switches and indent == switches[-1][0]:
            case_state = switches[-1][1]
            for mm in re.finditer(r"OpenFGAParser(\w+)", line):
                if mm.group(1) in tok:
                    tested.add(tok[mm.group(1)])
        for mm in re.finditer(r"\(int64\(1\) << (?:\(_la - (\d+)\)|_la)\) & (-?\d+)\)", line):
            off = int(mm.group(1) or 0)
            mask = int(mm.group(2)) & ((1 << 64) - 1)
            for b in range(64):
                if mask >> b & 1:
                    tested.add(b + off)
        if tested:
            lk = look(a, case_state if case_state is not None else state, cache)
            for t in tested:
                checked += 1
                if t not in lk:
                    name = [k for k, v in tok.items() if v == t]
                    results.append(("lookahead test on %s at state %d (line %d) is outside the ATN's lookahead set of that state" % (name[0] if name else t, state, ln), False))
    results.append(("generated Go parser: %d matches / rule calls / lookahead tests consistent with the ATN" % checked, checked > 100))
    return results
