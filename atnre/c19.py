"""C19: the lexer and parser automata embedded in the Go, JS and Java packages are the automaton of the
two .g4 grammars.  Per rule, the shallow regular language written in the .g4 source is compared with the
shallow language of the rule's sub-automaton in the serialized ATN (state elimination) by two RegLan
emptiness queries (z3 5.1.0, no length bound); the other artefacts are compared with the Go ATN, and by
per-rule language queries when their arrays differ.  Vocabularies and tables are compared directly."""
import os
import re
import subprocess
import time

from . import atn as A
from . import g4 as G

REPO = os.environ.get("VERIF_REPO", "/repo")


def paths():
    j = "pkg/java/src/main/gen/dev/openfga/language/antlr/"
    return {
        "go": {"parser": "pkg/go/gen/openfga_parser.go", "lexer": "pkg/go/gen/openfga_lexer.go",
               "parser_interp": "pkg/go/gen/OpenFGAParser.interp", "lexer_interp": "pkg/go/gen/OpenFGALexer.interp",
               "tokens": "pkg/go/gen/OpenFGALexer.tokens"},
        "js": {"parser": "pkg/js/gen/OpenFGAParser.ts", "lexer": "pkg/js/gen/OpenFGALexer.ts",
               "parser_interp": "pkg/js/gen/OpenFGAParser.interp", "lexer_interp": "pkg/js/gen/OpenFGALexer.interp",
               "tokens": "pkg/js/gen/OpenFGALexer.tokens"},
        "java": {"parser": j + "OpenFGAParser.java", "lexer": j + "OpenFGALexer.java",
                 "parser_interp": j + "OpenFGAParser.interp", "lexer_interp": j + "OpenFGALexer.interp",
                 "tokens": j + "OpenFGALexer.tokens"},
    }


EXTRACT = {"go": A.extract_go, "js": A.extract_ts, "java": A.extract_java}


# ---------------------------------------------------------------- RegLan

def collect_sets(ast, acc):
    if ast[0] == "set":
        acc.append(ast[1])
    elif ast[0] in ("seq", "alt"):
        for x in ast[1]:
            collect_sets(x, acc)
    elif ast[0] == "star":
        collect_sets(ast[1], acc)


def minterms(sets):
    pts = set()
    for iv in sets:
        for lo, hi in iv:
            pts.add(lo)
            pts.add(hi + 1)
    pts = sorted(pts)
    classes = []
    for i in range(len(pts) - 1):
        lo, hi = pts[i], pts[i + 1] - 1
        if any(a <= lo and hi <= b for iv in sets for a, b in iv):
            classes.append((lo, hi))
    return classes


def ch(code):
    return '"\\u{%x}"' % code


def reglan(ast, classes):
    k = ast[0]
    if k == "eps":
        return '(str.to_re "")'
    if k == "empty":
        return "re.none"
    if k == "set":
        cs = [i for i, (lo, hi) in enumerate(classes) if any(a <= lo and hi <= b for a, b in ast[1])]
        if not cs:
            return "re.none"
        parts = ["(str.to_re %s)" % ch(0x100 + i) for i in cs]
        return parts[0] if len(parts) == 1 else "(re.union " + " ".join(parts) + ")"
    if k == "call":
        return "(str.to_re %s)" % ch(0xE000 + ast[1])
    if k == "callname":
        raise ValueError("unresolved rule reference %s" % ast[1])
    if k == "seq":
        return "(re.++ " + " ".join(reglan(x, classes) for x in ast[1]) + ")"
    if k == "alt":
        return "(re.union " + " ".join(reglan(x, classes) for x in ast[1]) + ")"
    if k == "star":
        return "(re.* " + reglan(ast[1], classes) + ")"
    raise ValueError(k)


class Z3:
    def __init__(self, timeout_s=60):
        self.p = subprocess.Popen(["z3-new", "-in", "-t:%d" % (timeout_s * 1000)], stdin=subprocess.PIPE, stdout=subprocess.PIPE, text=True)
        self.p.stdin.write("(declare-const x String)\n")
        self.calls = 0
        self.secs = 0.0

    def nonempty(self, lang, model=False):
        t0 = time.time()
        self.p.stdin.write("(push)\n(assert (str.in_re x %s))\n(check-sat)\n" % lang)
        if model:
            self.p.stdin.write("(get-value (x))\n")
        self.p.stdin.write("(pop)\n")
        self.p.stdin.flush()
        v = self.p.stdout.readline().strip()
        w = None
        if model:
            line = self.p.stdout.readline().strip()
            if v == "sat":
                m = re.search(r'"((?:[^"]|"")*)"', line)
                w = m.group(1) if m else None
        self.calls += 1
        self.secs += time.time() - t0
        if v.startswith("(error"):
            return "error", None
        return v, w

    def close(self):
        self.p.stdin.close()
        self.p.wait()


def decode_witness(w, classes, rule_names, sym_names, lexer):
    """witness string over class / call letters -> readable sequence."""
    if w is None:
        return None
    out = []
    for m in re.finditer(r"\\u\{([0-9a-fA-F]+)\}|(.)", w):
        code = int(m.group(1), 16) if m.group(1) else ord(m.group(2))
        if code >= 0xE000:
            out.append("<%s>" % rule_names[code - 0xE000])
        else:
            lo, hi = classes[code - 0x100]
            if lexer:
                out.append(repr(chr(lo)) if lo >= 0 else "EOF")
            else:
                out.append(sym_names[lo] if 0 <= lo < len(sym_names) else "EOF")
    return " ".join(out)


def lang_equal(z3, a, b, rule_names, sym_names, lexer):
    sets = []
    collect_sets(a, sets)
    collect_sets(b, sets)
    classes = minterms(sets)
    ra, rb = reglan(a, classes), reglan(b, classes)
    res = []
    for name, l1, l2 in (("first-minus-second", ra, rb), ("second-minus-first", rb, ra)):
        v, w = z3.nonempty("(re.diff %s %s)" % (l1, l2), model=True)
        res.append((name, v, decode_witness(w, classes, rule_names, sym_names, lexer) if v == "sat" else None))
    return res


# ---------------------------------------------------------------- the check

def run(tier="quick"):
    P = paths()
    obligations = []   # dicts: name, verdict (unsat expected), witness
    direct = []        # directly compared side conditions: (name, ok, detail)
    z3 = Z3()
    # grammars
    lexer_interp = A.interp_sections(os.path.join(REPO, P["go"]["lexer_interp"]))
    parser_interp = A.interp_sections(os.path.join(REPO, P["go"]["parser_interp"]))
    sym = parser_interp["token symbolic names"]
    token_ids = {n: i for i, n in enumerate(sym) if n != "null"}
    gl = G.parse_grammar(os.path.join(REPO, "OpenFGALexer.g4"))
    gp = G.parse_grammar(os.path.join(REPO, "OpenFGAParser.g4"), token_ids=token_ids)
    atns = {}
    for lang in ("go", "js", "java"):
        for part in ("parser", "lexer"):
            data = EXTRACT[lang](os.path.join(REPO, P[lang][part]))
            atns[(lang, part)] = (data, A.deserialize(data))
            idata = A.extract_interp(os.path.join(REPO, P[lang][part + "_interp"]))
            atns[(lang, part + "_interp")] = (idata, A.deserialize(idata))
    go_p, go_l = atns[("go", "parser")][1], atns[("go", "lexer")][1]
    # (1) .g4 <-> Go ATN, per rule
    for g, a, interp, part in ((gp, go_p, parser_interp, "parser"), (gl, go_l, lexer_interp, "lexer")):
        rule_names = [r[0] for r in g.rules]
        direct.append(("%s: rule names and order in .g4 == .interp (go)" % part, rule_names == interp["rule names"], "%d rules" % len(rule_names)))
        direct.append(("%s: rule count in ATN (go)" % part, len(a.rule_start) == len(rule_names), "%d" % len(a.rule_start)))
        if len(a.rule_start) != len(rule_names):
            continue
        for idx, (name, frag, mode, ast, commands) in enumerate(g.rules):
            try:
                ra = A.rule_regex(a, idx)
                for sub, v, w in lang_equal(z3, ast, ra, rule_names, sym, part == "lexer"):
                    obligations.append({"name": "%s rule %s: .g4 vs ATN(go) %s" % (part, name, sub), "verdict": v, "witness": w})
            except Exception as e:  # noqa
                obligations.append({"name": "%s rule %s: .g4 vs ATN(go)" % (part, name), "verdict": "error", "witness": repr(e)})
    # (2) other artefacts vs Go ATN
    for key, (data, a) in sorted(atns.items()):
        lang, part = key
        base_part = part.replace("_interp", "")
        ref_data, ref = atns[("go", base_part)]
        if key == ("go", base_part):
            continue
        same = data == ref_data
        direct.append(("ATN array %s/%s identical to go/%s" % (lang, part, base_part), same, "%d ints" % len(data)))
        if same:
            continue
        # arrays differ: decide per rule whether the automata differ as languages
        g = gp if base_part == "parser" else gl
        rule_names = [r[0] for r in g.rules]
        n = min(len(a.rule_start), len(ref.rule_start))
        if len(a.rule_start) != len(ref.rule_start):
            obligations.append({"name": "%s/%s: number of rules differs from go" % (lang, part), "verdict": "sat", "witness": "%d vs %d" % (len(a.rule_start), len(ref.rule_start))})
        for idx in range(n):
            try:
                r1, r2 = A.rule_regex(a, idx), A.rule_regex(ref, idx)
                for sub, v, w in lang_equal(z3, r1, r2, rule_names, sym, base_part == "lexer"):
                    obligations.append({"name": "%s rule %s: ATN(%s/%s) vs ATN(go) %s" % (base_part, rule_names[idx] if idx < len(rule_names) else idx, lang, part, sub), "verdict": v, "witness": w})
            except Exception as e:  # noqa
                obligations.append({"name": "%s rule %d: ATN(%s/%s) vs ATN(go)" % (base_part, idx, lang, part), "verdict": "error", "witness": repr(e)})
        for what in ("grammar_type", "max_token_type", "modes", "actions", "rule_token", "non_greedy"):
            direct.append(("%s/%s %s == go" % (lang, part, what), getattr(a, what) == getattr(ref, what), ""))
    # (3) vocabularies
    for lang in ("go", "js", "java"):
        for part, gi in (("parser", parser_interp), ("lexer", lexer_interp)):
            sec = A.interp_sections(os.path.join(REPO, P[lang][part + "_interp"]))
            for k in gi:
                direct.append(("%s %s.interp %s == go" % (lang, part, k), sec.get(k) == gi[k], ""))
        tok = open(os.path.join(REPO, P[lang]["tokens"])).read()
        direct.append(("%s .tokens == go" % lang, tok == open(os.path.join(REPO, P["go"]["tokens"])).read(), ""))
    # token vocabulary of the lexer grammar: tokens{} then non-fragment rules without type() in order
    expected = []
    for t in gl.tokens_decl:
        if t not in expected:
            expected.append(t)
    for name, frag, mode, ast, commands in gl.rules:
        if frag or any(c.startswith("type(") for c in commands):
            continue
        if name not in expected:
            expected.append(name)
    sym_l = [s for s in lexer_interp["token symbolic names"] if s != "null"]
    direct.append(("lexer token vocabulary of the .g4 == symbolic names", expected == sym_l, "%d tokens" % len(expected)))
    direct.append(("lexer modes of the .g4 == mode names", gl.modes == lexer_interp["mode names"], str(gl.modes)))
    # lexer commands vs action table: every rule's commands appear (type/pushMode/popMode/channel)
    ncmd = sum(len(c) for _, _, _, _, c in gl.rules)
    direct.append(("lexer commands in the .g4 == lexer actions in the ATN (count)", ncmd == len(go_l.actions), "%d vs %d" % (ncmd, len(go_l.actions))))
    # Go rule-name table
    gosrc = open(os.path.join(REPO, P["go"]["parser"])).read()
    m = re.search(r"staticData.RuleNames = \[\]string\{(.*?)\}", gosrc, re.S)
    go_rules = re.findall(r'"([^"]+)"', m.group(1)) if m else []
    direct.append(("go parser RuleNames == .g4 rule names", go_rules == [r[0] for r in gp.rules], ""))
    # (4) the Go listener implements a callback only for rules that exist
    lsrc = open(os.path.join(REPO, "pkg/go/transformer/dsltojson.go")).read()
    iface = open(os.path.join(REPO, "pkg/go/gen/openfgaparser_listener.go")).read()
    for kind, rule in re.findall(r"func \(l \*OpenFgaDslListener\) (Enter|Exit)(\w+)\(", lsrc):
        cap = [r[0][0].upper() + r[0][1:] for r in gp.rules]
        ok = rule in cap and re.search(r"\b%s%s\(" % (kind, rule), iface) is not None
        direct.append(("listener callback %s%s names a grammar rule" % (kind, rule), ok, ""))
    # (5) the generated Go recursive-descent code against its own ATN (matches, rule calls, lookahead tests)
    from . import gencode
    for name, ok in gencode.run():
        direct.append((name, ok, ""))
    z3.close()
    return obligations, direct, {"z3_calls": z3.calls, "z3_s": round(z3.secs, 2), "parser_rules": len(gp.rules), "lexer_rules": len(gl.rules)}
