"""Parser for the subset of ANTLR4 grammar syntax that OpenFGALexer.g4 / OpenFGAParser.g4 use.
Produces, per rule, a regex AST over letters (see atn.py) plus the declared vocabularies."""
import re

from .atn import EPS, EMPTY, MAXCHAR, alt, complement, norm_intervals, seq, star

TOKEN_RE = re.compile(r"""
    (?P<ws>\s+|//[^\n]*|/\*.*?\*/)
  | (?P<lit>'(?:[^'\\]|\\.)*')
  | (?P<set>\[(?:[^\]\\]|\\.)*\])
  | (?P<arrow>->)
  | (?P<range>\.\.)
  | (?P<ng>[*+?]\?)
  | (?P<id>[A-Za-z_][A-Za-z0-9_]*)
  | (?P<sym>[:;|()*+?~.={},])
""", re.X | re.S)


def tokenize(src):
    out = []
    p = 0
    while p < len(src):
        m = TOKEN_RE.match(src, p)
        if not m:
            raise ValueError("g4: cannot tokenize at %r" % src[p:p + 30])
        p = m.end()
        k = m.lastgroup
        if k == "ws":
            continue
        out.append((k, m.group(k)))
    return out


ESC = {"n": 10, "r": 13, "t": 9, "b": 8, "f": 12, "\\": 92, "'": 39, '"': 34, "-": 45, "]": 93, "[": 91}


def unescape(s):
    """list of code points of the body of a literal / set."""
    out = []
    i = 0
    while i < len(s):
        c = s[i]
        if c == "\\":
            n = s[i + 1]
            if n == "u":
                if s[i + 2] == "{":
                    j = s.index("}", i)
                    out.append(int(s[i + 3:j], 16))
                    i = j + 1
                else:
                    out.append(int(s[i + 2:i + 6], 16))
                    i += 6
            else:
                out.append(ESC[n])
                i += 2
        else:
            out.append(ord(c))
            i += 1
    return out


def parse_charset(body):
    """body of [...] -> intervals."""
    # tokenise into (codepoint, escaped?) to tell a range dash from an escaped one
    items = []
    i = 0
    while i < len(body):
        c = body[i]
        if c == "\\":
            n = body[i + 1]
            if n == "u":
                if body[i + 2] == "{":
                    j = body.index("}", i)
                    items.append((int(body[i + 3:j], 16), True))
                    i = j + 1
                else:
                    items.append((int(body[i + 2:i + 6], 16), True))
                    i += 6
            else:
                items.append((ESC[n], True))
                i += 2
        else:
            items.append((ord(c), False))
            i += 1
    iv = []
    i = 0
    while i < len(items):
        if i + 2 < len(items) and items[i + 1] == (45, False):
            iv.append((items[i][0], items[i + 2][0]))
            i += 3
        else:
            iv.append((items[i][0], items[i][0]))
            i += 1
    return norm_intervals(iv)


class Grammar:
    def __init__(self):
        self.kind = None
        self.name = None
        self.rules = []          # (name, fragment, mode, ast, commands)
        self.tokens_decl = []
        self.modes = ["DEFAULT_MODE"]
        self.options = {}


class Parser:
    def __init__(self, toks, lexer, token_ids=None, rule_ids=None):
        self.t = toks
        self.p = 0
        self.lexer = lexer
        self.token_ids = token_ids or {}
        self.rule_ids = rule_ids or {}

    def peek(self):
        return self.t[self.p] if self.p < len(self.t) else (None, None)

    def eat(self, val=None):
        k, v = self.t[self.p]
        if val is not None and v != val:
            raise ValueError("g4: expected %r got %r" % (val, v))
        self.p += 1
        return k, v

    def alternatives(self):
        alts = [self.sequence()]
        while self.peek()[1] == "|":
            self.eat("|")
            alts.append(self.sequence())
        return alt(*alts) if len(alts) > 1 or alts[0] != EPS else (alt(*alts) if alts[0] != EPS else EPS)

    def sequence(self):
        parts = []
        while True:
            k, v = self.peek()
            if v in ("|", ")", ";", None) or k == "arrow":
                break
            parts.append(self.element())
        return seq(*parts) if parts else EPS

    def suffix(self, x):
        k, v = self.peek()
        if k == "ng":
            self.eat()
            v = v[0]
        elif v in ("*", "+", "?"):
            self.eat()
        else:
            return x
        if v == "*":
            return star(x)
        if v == "+":
            return seq(x, star(x))
        return alt(x, EPS)

    def set_of(self, x):
        """intervals of an element that denotes a set of single letters."""
        if x[0] == "set":
            return list(x[1])
        if x[0] == "alt":
            out = []
            for y in x[1]:
                out.extend(self.set_of(y))
            return out
        raise ValueError("g4: ~ applied to a non-set element %r" % (x,))

    def atom(self):
        k, v = self.eat()
        if k == "lit":
            cps = unescape(v[1:-1])
            if self.peek()[0] == "range":
                self.eat()
                _, v2 = self.eat()
                hi = unescape(v2[1:-1])
                return ("set", ((cps[0], hi[0]),))
            if not self.lexer:
                raise ValueError("g4: literal in parser grammar not supported: %s" % v)
            return seq(*[("set", ((c, c),)) for c in cps])
        if k == "set":
            return ("set", parse_charset(v[1:-1]))
        if v == ".":
            return ("set", ((0, MAXCHAR),)) if self.lexer else ("set", ((1, max(self.token_ids.values())),))
        if v == "(":
            x = self.alternatives()
            self.eat(")")
            return x
        if v == "~":
            x = self.atom()
            iv = self.set_of(x)
            if self.lexer:
                return ("set", complement(iv, 0, MAXCHAR))
            return ("set", complement(iv, 1, max(self.token_ids.values())))
        if k == "id":
            if self.peek()[1] == "=":     # label
                self.eat("=")
                return self.atom()
            if self.lexer:
                return ("call", self.rule_ids[v]) if v in self.rule_ids else ("callname", v)
            if v == "EOF":
                return ("set", ((-1, -1),))
            if v[0].isupper():
                return ("set", ((self.token_ids[v], self.token_ids[v]),))
            return ("call", self.rule_ids[v]) if v in self.rule_ids else ("callname", v)
        raise ValueError("g4: unexpected token %r" % v)

    def element(self):
        return self.suffix(self.atom())


def parse_grammar(path, token_ids=None):
    src = open(path).read()
    toks = tokenize(src)
    g = Grammar()
    p = 0
    # header
    assert toks[0][1] in ("lexer", "parser")
    g.kind = toks[0][1]
    assert toks[1][1] == "grammar"
    g.name = toks[2][1]
    p = 4
    lexer = g.kind == "lexer"
    # first pass: rule names in order (needed for call indices)
    names = []
    q = p
    depth = 0
    mode = "DEFAULT_MODE"
    while q < len(toks):
        k, v = toks[q]
        if v in ("options", "tokens") and toks[q + 1][1] == "{":
            j = q + 2
            body = []
            while toks[j][1] != "}":
                body.append(toks[j][1])
                j += 1
            if v == "tokens":
                g.tokens_decl = [b for b in body if b != ","]
            else:
                g.options = {body[i]: body[i + 2] for i in range(0, len(body) - 2, 4)}
            q = j + 1
            continue
        if v == "mode":
            mode = toks[q + 1][1]
            g.modes.append(mode)
            q += 3
            continue
        frag = False
        if v == "fragment":
            frag = True
            q += 1
        name = toks[q][1]
        assert toks[q + 1][1] == ":", "g4: rule header expected at %r" % (toks[q:q + 3],)
        j = q + 2
        while toks[j][1] != ";":
            j += 1
        names.append((name, frag, mode, q + 2, j))
        q = j + 1
    rule_ids = {n: i for i, (n, _, _, _, _) in enumerate(names)}
    for name, frag, mode, a, b in names:
        ps = Parser(toks[a:b], lexer, token_ids, rule_ids)
        ast = ps.alternatives()
        commands = []
        if ps.peek()[0] == "arrow":
            ps.eat()
            rest = [v for _, v in ps.t[ps.p:]]
            txt = "".join(rest)
            commands = [c for c in txt.split(",") if c]
        g.rules.append((name, frag, mode, ast, commands))
    return g
