"""C18: regular-language obligations over the languages of the ten Go validators.

Input: the `langs` record of gosymx (per validator: paths = path-condition atoms + result,
every atom a membership (str.in_re v0 R) of the one opaque string) and the rule constants.
Every obligation is an SMT-LIB2 script over one String variable, decided by z3 5.1.0 (no
bound on the string length); sat answers come with a witness that is replayed through the
real validators natively.
"""
import json
import os
import re
import subprocess
import time

Z3NEW = "z3-new"

WS = '(re.union (re.range "\\u{9}" "\\u{a}") (re.range "\\u{c}" "\\u{d}") (str.to_re "\\u{20}"))'  # RE2 \s = [\t\n\f\r ]


# Unicode White_Space that RE2's \s does not cover: VT, NEL, NBSP, OGHAM SPACE, EN QUAD..HAIR SPACE, LINE/PARAGRAPH SEPARATOR,
# NARROW NBSP, MEDIUM MATHEMATICAL SPACE, IDEOGRAPHIC SPACE (what unicode.IsSpace adds to [\t\n\f\r ])
UWS = ('(re.union (str.to_re "\\u{b}") (str.to_re "\\u{85}") (str.to_re "\\u{a0}") (str.to_re "\\u{1680}") (re.range "\\u{2000}" "\\u{200a}") '
       '(re.range "\\u{2028}" "\\u{2029}") (str.to_re "\\u{202f}") (str.to_re "\\u{205f}") (str.to_re "\\u{3000}"))')


def ch(c):
    return '(str.to_re "\\u{%x}")' % ord(c)


def anyof(chars):
    return "(re.union " + " ".join(ch(c) for c in chars) + ")" if len(chars) > 1 else ch(chars[0])


def contains(r):
    return "(re.++ re.all %s re.all)" % r


def no(r):
    return "(re.comp %s)" % contains(r)


def inter(*rs):
    return "(re.inter " + " ".join(rs) + ")" if len(rs) > 1 else rs[0]


def union(*rs):
    rs = [r for r in rs if r != "re.none"]
    if not rs:
        return "re.none"
    return "(re.union " + " ".join(rs) + ")" if len(rs) > 1 else rs[0]


def cat(*rs):
    return "(re.++ " + " ".join(rs) + ")"


def lenexact(n):
    return "((_ re.loop %d %d) re.allchar)" % (n, n)


def lenatleast(n):
    return "(re.++ ((_ re.loop %d %d) re.allchar) re.all)" % (n, n)


ATOM = re.compile(r"^\(str\.in_re v\d+ (.*)\)$", re.S)


def atom_lang(a):
    a = a.strip()
    if a == "true":
        return "re.all"
    if a == "false":
        return "re.none"
    if a.startswith("(not ") and a.endswith(")"):
        inner = atom_lang(a[5:-1])
        return "(re.comp %s)" % inner
    m = ATOM.match(a)
    if not m:
        raise ValueError("unexpected atom: " + a[:80])
    return m.group(1)


def validator_lang(paths):
    """Union over paths of the intersection of the literals (incl. the result)."""
    alts = []
    for p in paths:
        lits = [atom_lang(a) for a in (p.get("atoms") or [])] + [atom_lang(p["result"])]
        if "re.none" in lits:
            continue
        lits = [l for l in lits if l != "re.all"] or ["re.all"]
        alts.append(inter(*lits))
    return union(*alts) if alts else "re.none"


def scale(script, f):
    """Scale every repetition bound (for the cross-solver diff at reduced bounds)."""
    def rep(m):
        lo, hi = int(m.group(1)), int(m.group(2))
        return "(_ re.loop %d %d)" % (f(lo), f(hi))
    return re.sub(r"\(_ re\.loop (\d+) (\d+)\)", rep, script)


def solve(script, solver=Z3NEW, timeout=120):
    t0 = time.time()
    if "cvc5" in solver:
        cmd = [solver, "--lang=smt2", "--strings-exp", "--tlimit=%d" % (timeout * 1000)]
        script = "(set-logic ALL)\n(set-option :produce-models true)\n" + script
    else:
        cmd = [solver, "-in", "-T:%d" % timeout]
    try:
        r = subprocess.run(cmd, input=script, capture_output=True, text=True, timeout=timeout + 10)
        out = r.stdout.strip()
    except subprocess.TimeoutExpired:
        out = "timeout"
    lines = out.splitlines()
    verdict = lines[0].strip() if lines else "unknown"
    if "(error" in out:
        verdict = "error"
    if verdict not in ("sat", "unsat"):
        verdict = "unknown" if verdict not in ("error", "timeout") else verdict
    return verdict, out, time.time() - t0


def decode_model_string(out):
    m = re.search(r'\(define-fun x \(\) String\s+"((?:[^"]|"")*)"\)', out, re.S)
    if not m:
        return None
    s = m.group(1).replace('""', '"')
    return re.sub(r"\\u\{([0-9a-fA-F]+)\}", lambda mm: chr(int(mm.group(1), 16)), s)


def extract_rule_strings():
    """Rule strings of the JS and Java packages (text extraction)."""
    repo = os.environ.get("VERIF_REPO", "/repo")
    out = {"js": {}, "java": {}}
    ts = open(os.path.join(repo, "pkg/js/validator/validate-rules.ts")).read()
    m = re.search(r"export const Rules = \{(.*?)\};", ts, re.S)
    for k, v in re.findall(r'(\w+):\s*"((?:[^"\\]|\\.)*)"', m.group(1)):
        out["js"][k] = bytes(v, "utf-8").decode("unicode_escape") if False else v.replace("\\\\", "\\")
    jv = open(os.path.join(repo, "pkg/java/src/main/java/dev/openfga/language/validation/Validator.java")).read()
    for k, v in re.findall(r'String\s+(\w+)\s*=\s*"((?:[^"\\]|\\.)*)"', jv):
        out["java"][k.lower()] = v.replace("\\\\", "\\")
    return out


def run(res, tier, native_validate):
    """res: gosymx result for VerifC18_Langs. Returns (obligations list, rule info)."""
    langs = res.get("langs") or {}
    L = {}
    rules = {}
    for name, paths in langs.items():
        if "=" in name and name.startswith("Rule"):
            k, v = name.split("=", 1)
            rules[k] = v
        elif name != "Rules":
            L[name] = validator_lang(paths)
    need = ["ValidateObject", "ValidateObjectID", "ValidateRelation", "ValidateUserSet", "ValidateUserObject",
            "ValidateUserWildcard", "ValidateUser", "ValidateRelationshipCondition", "ValidateType"]
    missing = [n for n in need if n not in L]
    if missing:
        raise RuntimeError("validators not reached by the executor: %s" % missing)
    O, ID, R, US, UO, UW, U, C, T = (L[n] for n in need)
    NC, NH = no(ch(":")), no(ch("#"))
    NWS = no(WS)
    FORB = anyof(":#@*")
    obs = []

    def ob(name, lang, expect, why):
        obs.append({"name": name, "lang": lang, "expect": expect, "why": why})

    ob("object-splits-at-its-only-colon", inter(O, "(re.comp %s)" % cat(inter(T, NC), ch(":"), inter(ID, NC))), "unsat",
       "accepted object = accepted type ':' accepted id, neither containing ':'")
    ob("userset-splits", inter(US, "(re.comp %s)" % cat(inter(T, NC, NH), ch(":"), inter(ID, NC, NH), ch("#"), inter(R, NH, NC))), "unsat",
       "accepted userset = type ':' id '#' relation with exactly one ':' and one '#'")
    ob("userset-object-part-is-an-accepted-object", inter(US, "(re.comp %s)" % cat(O, ch("#"), "re.all")), "unsat",
       "the part of an accepted userset in front of '#' is an accepted object (so the object length limit holds for usersets too)")
    ob("user-subset-of-union", inter(U, "(re.comp %s)" % union(US, O, UW)), "unsat", "user accepts only usersets, objects, typed wildcards")
    ob("union-subset-of-user", inter(union(US, O, UW), "(re.comp %s)" % U), "unsat", "user accepts every userset, object, typed wildcard")
    ob("userset-object-disjoint", inter(US, O), "unsat", "exactly one of the three kinds")
    ob("userset-wildcard-disjoint", inter(US, UW), "unsat", "exactly one of the three kinds")
    ob("object-wildcard-disjoint", inter(O, UW), "unsat", "exactly one of the three kinds")
    ob("userobject-subset-object", inter(UO, "(re.comp %s)" % O), "unsat", "ValidateUserObject == ValidateObject")
    ob("object-subset-userobject", inter(O, "(re.comp %s)" % UO), "unsat", "ValidateUserObject == ValidateObject")
    for nm, lang in (("type", T), ("relation", R), ("id", ID)):
        ob("no-whitespace-in-" + nm, inter(lang, contains(WS)), "unsat", "no accepted %s contains RE2 whitespace" % nm)
    for nm, lang in (("type", T), ("relation", R), ("id", ID)):
        ob("no-unicode-whitespace-in-" + nm, inter(lang, contains(UWS)), "unsat", "no accepted %s contains white space (Unicode White_Space beyond RE2's \\s)" % nm)
    for nm, lang in (("type", T), ("relation", R)):
        ob("no-reserved-char-in-" + nm, inter(lang, contains(FORB)), "unsat", "no ':', '#', '@', '*' in an accepted %s" % nm)
    for nm, lang, lim in (("type", T, 254), ("relation", R, 50), ("condition", C, 50), ("object", O, 256)):
        ob("%s-length-%d-accepted" % (nm, lim), inter(lang, lenexact(lim)), "sat", "limit is reachable")
        ob("%s-length-%d-rejected" % (nm, lim + 1), inter(lang, lenatleast(lim + 1)), "unsat", "limit is enforced")
    ob("object-shorter-than-2-rejected", inter(O, union(lenexact(0), lenexact(1))), "unsat", "object lower bound")
    ob("type-empty-rejected", inter(T, lenexact(0)), "unsat", "lower bound 1")
    ob("relation-empty-rejected", inter(R, lenexact(0)), "unsat", "lower bound 1")
    ob("condition-empty-rejected", inter(C, lenexact(0)), "unsat", "lower bound 1")
    # sanity (vacuity guards): every language is non-empty
    for nm in need:
        ob("nonempty-" + nm, L[nm], "sat", "vacuity guard: the validator accepts something")

    results = []
    witnesses = []
    for o in obs:
        script = "(declare-const x String)\n(assert (str.in_re x %s))\n(check-sat)\n" % o["lang"]
        if o["expect"] == "sat":
            script += "(get-model)\n"
        verdict, out, dt = solve(script)
        o2 = {"name": o["name"], "expect": o["expect"], "verdict": verdict, "s": round(dt, 3), "why": o["why"]}
        if verdict == "sat":
            if o["expect"] == "unsat":
                v2, out2, _ = solve(script + "(get-model)\n")
                out = out2
            w = decode_model_string(out)
            o2["witness"] = w
            if w is not None:
                witnesses.append((o["name"], w))
        # cross-solver diff at scaled repetition bounds (translator check)
        if tier == "thorough":
            sc = scale(script.replace("(get-model)\n", ""), lambda n: n if n <= 2 else max(3, n // 50 + 2))
            vs = {}
            for sv in (Z3NEW, "z3", "cvc5"):
                vs[sv] = solve(sc, sv, timeout=60)[0]
            o2["scaled_verdicts"] = vs
        results.append(o2)
        o["script"] = script
    # native replay of witnesses through the real validators
    natives = native_validate([w for _, w in witnesses]) if witnesses else []
    for (name, w), nat in zip(witnesses, natives):
        for o2 in results:
            if o2["name"] == name:
                o2["native"] = nat
    return results, rules, L
