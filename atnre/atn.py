"""Extraction and deserialisation (format version 4) of the serialized ANTLR ATNs embedded in the
Go, JS and Java packages and in the .interp files; shallow per-rule languages by state elimination."""
import re

EPSILON, RANGE, RULE, PREDICATE, ATOM, ACTION, SET, NOT_SET, WILDCARD, PRECEDENCE = range(1, 11)
STATE_EXTRA = {3, 4, 5, 12}
RULE_STOP = 7
MAXCHAR = 0x10FFFF


def extract_go(path):
    src = open(path).read()
    m = re.search(r"serializedATN = \[\]int32\{(.*?)\n\s*\}", src, re.S)
    return [int(x) for x in re.findall(r"-?\d+", m.group(1))]


def extract_ts(path):
    src = open(path).read()
    m = re.search(r"_serializedATN: number\[\] = \[(.*?)\];", src, re.S)
    return [int(x) for x in re.findall(r"-?\d+", m.group(1))]


def extract_interp(path):
    src = open(path).read()
    m = re.search(r"\natn:\n\[(.*?)\]", src, re.S)
    return [int(x) for x in re.findall(r"-?\d+", m.group(1))]


def interp_sections(path):
    """token literal names / token symbolic names / rule names / channel names / mode names."""
    out = {}
    cur = None
    for line in open(path).read().split("\n"):
        if line.endswith(":") and line[:-1] in ("token literal names", "token symbolic names", "rule names", "channel names", "mode names", "atn"):
            cur = line[:-1]
            out[cur] = []
            continue
        if cur and cur != "atn":
            if line == "":
                cur = None
            else:
                out[cur].append(line)
    return out


def extract_java(path):
    src = open(path).read()
    m = re.search(r"_serializedATN =\s*(.*?)\";\n", src, re.S)
    body = m.group(1) + '"'
    words = []
    for lit in re.findall(r'"((?:[^"\\]|\\.)*)"', body):
        i = 0
        while i < len(lit):
            c = lit[i]
            if c == "\\":
                n = lit[i + 1]
                if n == "u":
                    j = i + 1
                    while lit[j] == "u":
                        j += 1
                    words.append(int(lit[j:j + 4], 16))
                    i = j + 4
                elif n in "01234567":
                    j = i + 1
                    k = j
                    while k < len(lit) and k < j + 3 and lit[k] in "01234567":
                        k += 1
                    # Java: \0-\377 ; three digits only if the first is 0-3
                    if k - j == 3 and lit[j] not in "0123":
                        k -= 1
                    words.append(int(lit[j:k], 8))
                    i = k
                else:
                    words.append({"n": 10, "r": 13, "t": 9, "b": 8, "f": 12, '"': 34, "'": 39, "\\": 92}[n])
                    i += 2
            else:
                words.append(ord(c))
                i += 1
    # 16-bit word encoding: a word with the high bit set combines with the next one; ffff ffff = -1
    out = []
    i = 0
    while i < len(words):
        w = words[i]
        if w & 0x8000:
            lo = words[i + 1]
            if w == 0xFFFF and lo == 0xFFFF:
                out.append(-1)
            else:
                out.append(((w & 0x7FFF) << 16) | lo)
            i += 2
        else:
            out.append(w)
            i += 1
    return out


class ATN:
    pass


def deserialize(data):
    p = 0

    def rd():
        nonlocal p
        v = data[p]
        p += 1
        return v

    a = ATN()
    a.version = rd()
    if a.version != 4:
        raise ValueError("unsupported ATN serialization version %d" % a.version)
    a.grammar_type = rd()
    a.max_token_type = rd()
    n = rd()
    a.states = []
    for _ in range(n):
        t = rd()
        if t == 0:
            a.states.append((0, -1, None))
            continue
        rule = rd()
        extra = rd() if t in STATE_EXTRA else None
        a.states.append((t, rule, extra))
    a.non_greedy = [rd() for _ in range(rd())]
    a.precedence = [rd() for _ in range(rd())]
    nr = rd()
    a.rule_start = []
    a.rule_token = []
    for _ in range(nr):
        a.rule_start.append(rd())
        if a.grammar_type == 0:
            a.rule_token.append(rd())
    a.modes = [rd() for _ in range(rd())]
    a.sets = []
    for _ in range(rd()):
        k = rd()
        eof = rd()
        iv = [(rd(), rd()) for _ in range(k)]
        a.sets.append((bool(eof), iv))
    a.edges = []
    for _ in range(rd()):
        a.edges.append(tuple(rd() for _ in range(6)))
    a.decisions = [rd() for _ in range(rd())]
    a.actions = []
    if a.grammar_type == 0:
        for _ in range(rd()):
            a.actions.append((rd(), rd(), rd()))
    if p != len(data):
        raise ValueError("ATN array not consumed exactly: %d of %d" % (p, len(data)))
    a.rule_stop = {}
    for i, (t, rule, _) in enumerate(a.states):
        if t == RULE_STOP:
            a.rule_stop[rule] = i
    a.out = {}
    for e in a.edges:
        a.out.setdefault(e[0], []).append(e)
    return a


# ---------------------------------------------------------------- regex AST over letters
# ('eps',) ('empty',) ('set', ((lo,hi),...))  ('call', rule)  ('seq', [..]) ('alt', [..]) ('star', x)

EPS = ("eps",)
EMPTY = ("empty",)


def seq(*xs):
    out = []
    for x in xs:
        if x == EMPTY:
            return EMPTY
        if x == EPS:
            continue
        if x[0] == "seq":
            out.extend(x[1])
        else:
            out.append(x)
    if not out:
        return EPS
    if len(out) == 1:
        return out[0]
    return ("seq", tuple(out))


def alt(*xs):
    out = []
    for x in xs:
        if x == EMPTY:
            continue
        if x[0] == "alt":
            for y in x[1]:
                if y not in out:
                    out.append(y)
        elif x not in out:
            out.append(x)
    if not out:
        return EMPTY
    if len(out) == 1:
        return out[0]
    return ("alt", tuple(out))


def star(x):
    if x in (EPS, EMPTY):
        return EPS
    if x[0] == "star":
        return x
    return ("star", x)


def norm_intervals(iv):
    iv = sorted((lo, hi) for lo, hi in iv if lo <= hi)
    out = []
    for lo, hi in iv:
        if out and lo <= out[-1][1] + 1:
            out[-1] = (out[-1][0], max(out[-1][1], hi))
        else:
            out.append((lo, hi))
    return tuple(out)


def complement(iv, lo, hi):
    out = []
    cur = lo
    for a, b in norm_intervals(iv):
        if a > cur:
            out.append((cur, a - 1))
        cur = max(cur, b + 1)
    if cur <= hi:
        out.append((cur, hi))
    return tuple(out)


def edge_label(a, e):
    """regex AST of one transition (letters only; epsilon-like edges -> EPS)."""
    _, trg, typ, a1, a2, a3 = e
    lexer = a.grammar_type == 0
    lo, hi = (0, MAXCHAR) if lexer else (1, a.max_token_type)
    if typ in (EPSILON, ACTION, PREDICATE, PRECEDENCE):
        return EPS
    if typ == ATOM:
        if a3 != 0:
            return ("set", ((-1, -1),))
        return ("set", ((a1, a1),))
    if typ == RANGE:
        return ("set", ((a1, a2),))
    if typ == SET:
        eof, iv = a.sets[a1]
        iv = list(iv) + ([(-1, -1)] if eof else [])
        return ("set", norm_intervals(iv))
    if typ == NOT_SET:
        eof, iv = a.sets[a1]
        return ("set", complement(iv, lo, hi))
    if typ == WILDCARD:
        return ("set", ((lo, hi),))
    if typ == RULE:
        return ("call", a2)
    raise ValueError("edge type %d" % typ)


def rule_regex(a, rule):
    """Shallow language of a rule: state elimination on the sub-automaton between rule start and stop
    (a RULE transition is the letter 'call r' and continues at its follow state)."""
    start = a.rule_start[rule]
    stop = a.rule_stop[rule]
    # collect states
    seen = {start}
    stack = [start]
    edges = {}
    while stack:
        s = stack.pop()
        if s == stop:
            continue
        for e in a.out.get(s, []):
            t = e[1]
            lab = edge_label(a, e)
            edges[(s, t)] = alt(edges.get((s, t), EMPTY), lab)
            if t not in seen:
                seen.add(t)
                stack.append(t)
    if stop not in seen:
        return EMPTY
    inner = [s for s in seen if s not in (start, stop)]
    # eliminate in an order that keeps expressions small: by degree
    def degree(s):
        return sum(1 for (x, y) in edges if x == s or y == s)
    while inner:
        inner.sort(key=degree)
        s = inner.pop(0)
        loop = star(edges.pop((s, s), EMPTY)) if (s, s) in edges else EPS
        ins = [(x, lab) for (x, y), lab in edges.items() if y == s and x != s]
        outs = [(y, lab) for (x, y), lab in edges.items() if x == s and y != s]
        for (x, _) in ins:
            edges.pop((x, s))
        for (y, _) in outs:
            edges.pop((s, y))
        for x, li in ins:
            for y, lo in outs:
                edges[(x, y)] = alt(edges.get((x, y), EMPTY), seq(li, loop, lo))
    r = edges.get((start, stop), EMPTY)
    if (start, start) in edges:
        r = seq(star(edges[(start, start)]), r)
    return r
