"""C08, work clause, lexer side: recursive lexer rules whose units are ambiguous.

ANTLR's lexer simulates the ATN with one configuration per (state, call stack).  A lexer rule that calls
itself (NEWLINE: WHITESPACE? (...) WHITESPACE? NEWLINE?) pushes a stack frame per repetition; when the
same text can be cut into a different number of repetitions ("\\r\\n" is one line break or two, a form
feed is white space or a line break) the simulator carries configurations for every possible stack
depth at every position, their number grows with the position, merging their contexts grows with the
depth, and lexing a run of n such units takes time cubic in n (seconds for a few hundred bytes).

Decided here, per recursive lexer rule R of the ATN the Go lexer interprets (fragments inlined, the
self call kept as a letter):
  * the self call stands only at the end of R (RegLan emptiness; otherwise the rule is reported as
    not analysable),
  * is there a word w that is one final unit of R and also u.v with u a unit that continues with the
    self call and v a final unit (word equation + RegLan memberships, z3 5.1.0, no length bound)?
A witness is pumped (w repeated 50/100/200 times) through the real generated lexer; the finding is
confirmed when the measured time grows faster than quadratically (more than x32 for x4 input) and
exceeds half a second.
"""
import json
import os
import re
import subprocess
import tempfile
import time

from . import atn as A
from . import c19 as C
from . import facts as F

REPO = os.environ.get("VERIF_REPO", "/repo")
MARK = 0x10FFFF  # letter standing for "the rule calls itself here"


def subst(ast, fn):
    k = ast[0]
    if k == "call":
        return fn(ast[1])
    if k in ("seq", "alt"):
        parts = [subst(x, fn) for x in ast[1]]
        return A.seq(*parts) if k == "seq" else A.alt(*parts)
    if k == "star":
        return A.star(subst(ast[1], fn))
    return ast


def deep(a, rule, stack, notes):
    """language of lexer rule `rule` over characters; a call of stack[0] (the rule under analysis) stays a
    marker letter, any other recursion is noted and cut."""
    r = A.rule_regex(a, rule)

    def call(r2):
        if r2 == stack[0]:
            return ("set", ((MARK, MARK),))
        if r2 in stack or r2 == rule:
            notes.append("mutual recursion through rule %d" % r2)
            return A.EMPTY
        return deep(a, r2, stack + [rule], notes)
    return subst(r, call)


def calls_self(a, rule, seen=None, target=None):
    target = rule if target is None else target
    seen = seen or set()
    if rule in seen:
        return False
    seen.add(rule)
    start, stop = a.rule_start[rule], a.rule_stop[rule]
    st, vis = [start], {start}
    while st:
        s = st.pop()
        if s == stop:
            continue
        for e in a.out.get(s, []):
            if e[2] == A.RULE:
                if e[4] == target or calls_self(a, e[4], seen, target):
                    return True
            if e[1] not in vis:
                vis.add(e[1])
                st.append(e[1])
    return False


def smt_str(codes):
    return '"' + "".join("\\u{%x}" % c for c in codes) + '"'


def analyse():
    ctx = F.Ctx()
    a = ctx.latn
    names = ctx.li["rule names"]
    out = []
    stats = {"rules": len(names), "recursive": [], "queries": 0, "solver_s": 0.0}
    for rule, name in enumerate(names):
        if not calls_self(a, rule):
            continue
        stats["recursive"].append(name)
        notes = []
        S = deep(a, rule, [rule], notes)
        sets = []
        C.collect_sets(S, sets)
        classes = C.minterms(sets)
        mark_cls = [i for i, (lo, hi) in enumerate(classes) if lo == MARK]
        if not mark_cls:
            continue
        mk = C.ch(0x100 + mark_cls[0])
        lang = C.reglan(S, classes)
        sigma = "(re.union " + " ".join("(str.to_re %s)" % C.ch(0x100 + i) for i in range(len(classes)) if i != mark_cls[0]) + ")"
        anyl = "(re.union %s (str.to_re %s))" % (sigma, mk)
        t0 = time.time()
        script = ["(declare-const w String)", "(declare-const u String)", "(declare-const v String)"]
        # 1. the self call is in tail position (at most once, at the end)
        q1 = script + ["(assert (str.in_re w %s))" % lang,
                       "(assert (str.in_re w (re.++ (re.* %s) (str.to_re %s) %s (re.* %s))))" % (anyl, mk, anyl, anyl), "(check-sat)"]
        v1 = run_z3(q1)
        stats["queries"] += 1
        if v1[0] != "unsat":
            out.append({"rule": name, "verdict": "not-analysable", "detail": "the self call is not in tail position (%s)%s" % (v1[0], "; " + "; ".join(notes) if notes else "")})
            continue
        # 2. one final unit that is also a continuing unit followed by a final unit
        final = "(re.inter %s (re.* %s))" % (lang, sigma)
        q2 = script + ["(assert (str.in_re w %s))" % final, "(assert (= w (str.++ u v)))", "(assert (not (= u \"\")))",
                       "(assert (str.in_re (str.++ u %s) %s))" % (mk, lang), "(assert (str.in_re v %s))" % final,
                       "(check-sat)", "(get-value (w u v))"]
        v2 = run_z3(q2)
        stats["queries"] += 1
        stats["solver_s"] += time.time() - t0
        if v2[0] == "unsat":
            out.append({"rule": name, "verdict": "unambiguous", "detail": "no final unit splits into a continuing unit and a final unit"})
            continue
        if v2[0] != "sat":
            out.append({"rule": name, "verdict": "unknown", "detail": v2[0]})
            continue
        vals = {}
        for m in re.finditer(r'\((\w) "((?:[^"]|"")*)"\)', " ".join(v2[1:])):
            codes = []
            for mm in re.finditer(r"\\u\{([0-9a-fA-F]+)\}|(.)", m.group(2)):
                code = int(mm.group(1), 16) if mm.group(1) else ord(mm.group(2))
                lo, hi = classes[code - 0x100]
                codes.append(lo)
            vals[m.group(1)] = codes
        out.append({"rule": name, "verdict": "ambiguous", "w": vals.get("w"), "u": vals.get("u"), "v": vals.get("v"),
                    "detail": "%r is one unit of %s and also %r + %r" % ("".join(map(chr, vals.get("w") or [])), name, "".join(map(chr, vals.get("u") or [])), "".join(map(chr, vals.get("v") or [])))})
    return out, stats


def run_z3(lines):
    p = subprocess.run(["z3-new", "-in", "-t:120000"], input="\n".join(lines) + "\n", capture_output=True, text=True)
    o = [l.strip() for l in p.stdout.strip().splitlines() if l.strip()]
    if not o or any(l.startswith("(error") for l in o[:1]):
        return ["error: " + " ".join(o)[:200]]
    return o


TEST_SRC = '''package parser

import (
	"encoding/json"
	"fmt"
	"os"
	"strings"
	"testing"
	"time"

	"github.com/antlr4-go/antlr/v4"
)

// TestVerifLexWork: time the generated lexer on a unit repeated n times (driver: /verif/atnre/lexwork.py).
func TestVerifLexWork(t *testing.T) {
	var codes []int
	if err := json.Unmarshal([]byte(os.Getenv("VERIF_LEX_UNIT")), &codes); err != nil {
		t.Skip("no unit")
	}
	var sb strings.Builder
	for _, c := range codes {
		sb.WriteRune(rune(c))
	}
	unit := sb.String()
	for _, n := range []int{50, 100, 200} {
		lx := NewOpenFGALexer(antlr.NewInputStream(strings.Repeat(unit, n)))
		lx.RemoveErrorListeners()
		t0 := time.Now()
		toks := 0
		for {
			tok := lx.NextToken()
			toks++
			if tok.GetTokenType() == antlr.TokenEOF || time.Since(t0) > 120*time.Second {
				break
			}
		}
		fmt.Printf("LEXWORK n=%d bytes=%d tokens=%d ns=%d\\n", n, n*len(unit), toks, time.Since(t0).Nanoseconds())
	}
}
'''


def native_timing(codes):
    """{n: seconds} for the unit repeated n times through the real generated lexer of the current tree."""
    d = tempfile.mkdtemp(prefix="verif-lexwork-")
    try:
        tf = os.path.join(d, "zz_verif_lexwork_test.go")
        open(tf, "w").write(TEST_SRC)
        ov = os.path.join(d, "overlay.json")
        gen = os.path.join(REPO, "pkg/go/gen")
        json.dump({"Replace": {os.path.join(gen, "zz_verif_lexwork_test.go"): tf}}, open(ov, "w"))
        env = dict(os.environ, GOFLAGS="-mod=mod", GOPROXY="off", GOSUMDB="off", GOTOOLCHAIN="local", VERIF_LEX_UNIT=json.dumps(codes))
        r = subprocess.run(["go", "test", "-vet=off", "-count=1", "-v", "-run", "TestVerifLexWork", "-overlay", ov, "-timeout", "600s", "."],
                           cwd=gen, env=env, capture_output=True, text=True)
        res = {}
        for m in re.finditer(r"LEXWORK n=(\d+) bytes=(\d+) tokens=(\d+) ns=(\d+)", r.stdout):
            res[int(m.group(1))] = int(m.group(4)) / 1e9
        return res, (r.stdout + r.stderr)[-300:]
    finally:
        import shutil
        shutil.rmtree(d, ignore_errors=True)


def run():
    """-> (results, stats); a result: rule, verdict in {unambiguous, ambiguous-confirmed, ambiguous-unconfirmed, not-analysable, unknown}, detail, timing."""
    found, stats = analyse()
    results = []
    for f in found:
        r = dict(f)
        if f["verdict"] == "ambiguous":
            timing, tail = native_timing(f["w"])
            r["timing_s"] = timing
            t1, t4 = timing.get(50), timing.get(200)
            if t1 and t4 and t4 > 0.5 and t4 / max(t1, 1e-9) > 32:
                r["verdict"] = "ambiguous-confirmed"
                r["detail"] += "; the real lexer needs %.2fs / %.2fs / %.2fs for 50 / 100 / 200 repetitions (%d bytes): faster than quadratic growth" % (
                    t1, timing.get(100, 0), t4, 200 * len(f["w"]))
            else:
                r["verdict"] = "ambiguous-unconfirmed"
                r["detail"] += "; the real lexer does not show super-quadratic growth on it: %s %s" % (timing, "" if timing else tail)
        results.append(r)
    return results, stats


if __name__ == "__main__":
    res, st = run()
    print(json.dumps(res, indent=1))
    print(st)
