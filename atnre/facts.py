"""Grammar-level obligations on the ATN that the Go parser / lexer interpret (C09 structural rules,
C03 layout facts): language inclusions between a rule's shallow language and a specification written
here from the property text; decided by z3 5.1.0 as RegLan emptiness (no bound on word length)."""
import os

from . import atn as A
from . import c19 as C

REPO = os.environ.get("VERIF_REPO", "/repo")


class Ctx:
    def __init__(self):
        P = C.paths()["go"]
        self.pi = A.interp_sections(os.path.join(REPO, P["parser_interp"]))
        self.li = A.interp_sections(os.path.join(REPO, P["lexer_interp"]))
        self.patn = A.deserialize(A.extract_go(os.path.join(REPO, P["parser"])))
        self.latn = A.deserialize(A.extract_go(os.path.join(REPO, P["lexer"])))
        self.sym = self.pi["token symbolic names"]
        self.tok_id = {n: i for i, n in enumerate(self.sym) if n != "null"}
        self.prule = {n: i for i, n in enumerate(self.pi["rule names"])}
        self.lrule = {n: i for i, n in enumerate(self.li["rule names"])}
        self.maxtok = self.patn.max_token_type

    # --- spec DSL (parser level)
    def t(self, name):
        return ("set", ((self.tok_id[name], self.tok_id[name]),))

    def r(self, name):
        return ("call", self.prule[name])

    def anytok(self):
        return ("set", ((1, self.maxtok),))

    def anyrule(self):
        return A.alt(*[("call", i) for i in range(len(self.prule))])

    def sigma(self):
        return A.alt(self.anytok(), self.anyrule(), ("set", ((-1, -1),)))

    def prule_lang(self, name):
        return A.rule_regex(self.patn, self.prule[name])

    def lrule_lang(self, name):
        return A.rule_regex(self.latn, self.lrule[name])


def plus(x):
    return A.seq(x, A.star(x))


def opt(x):
    return A.alt(x, A.EPS)


def chars(s):
    return A.seq(*[("set", ((ord(c), ord(c)),)) for c in s])


def cset(s):
    return ("set", A.norm_intervals([(ord(c), ord(c)) for c in s]))


def obligations(ctx):
    """yields (property, name, kind, lhs, rhs, lexer?) with kind in {'subset','equal'} meaning lhs (kind) rhs."""
    t, r, seq, alt, star = ctx.t, ctx.r, A.seq, A.alt, A.star
    WS, NL = t("WHITESPACE"), t("NEWLINE")
    sig = ctx.sigma()
    sigstar = star(sig)
    x = alt(r("relationDefGrouping"), r("relationRecurseNoDirect"))
    L = ctx.prule_lang
    out = []
    # ---- C09
    out.append(("C09", "relationDefPartials never mixes operators at one level", "subset", L("relationDefPartials"),
                alt(plus(seq(WS, t("OR"), WS, x)), plus(seq(WS, t("AND"), WS, x)), seq(WS, t("BUT_NOT"), WS, x)), False))
    out.append(("C09", "operands after the first are never direct assignments (relationDefPartials)", "subset", L("relationDefPartials"),
                star(alt(ctx.anytok(), x)), False))
    out.append(("C09", "relationDefNoDirect starts with a grouping or a parenthesised no-direct expression", "subset", L("relationDefNoDirect"),
                seq(x, opt(r("relationDefPartials"))), False))
    out.append(("C09", "relationRecurseNoDirect contains no direct assignment", "subset", L("relationRecurseNoDirect"),
                seq(t("LPAREN"), star(WS), alt(r("relationDefNoDirect"), r("relationRecurseNoDirect")), star(WS), t("RPAREN")), False))
    out.append(("C09", "a direct assignment can only be the first operand of relationDef", "subset", L("relationDef"),
                seq(alt(r("relationDefDirectAssignment"), r("relationDefGrouping"), r("relationRecurse")), opt(r("relationDefPartials"))), False))
    out.append(("C09", "relationDefGrouping is a rewrite (no bracket list)", "subset", L("relationDefGrouping"), r("relationDefRewrite"), False))
    out.append(("C09", "a type-restriction list has at least one restriction", "subset", L("relationDefDirectAssignment"),
                seq(sigstar, r("relationDefTypeRestriction"), sigstar), False))
    out.append(("C09", "a type-restriction list is bracketed", "subset", L("relationDefDirectAssignment"),
                seq(t("LBRACKET"), sigstar, t("RPRACKET")), False))
    no_star = star(alt(*[tt for tt in (("set", A.complement(((ctx.tok_id["STAR"], ctx.tok_id["STAR"]),), 1, ctx.maxtok)), ctx.anyrule())]))
    no_hash = star(alt(*[tt for tt in (("set", A.complement(((ctx.tok_id["HASH"], ctx.tok_id["HASH"]),), 1, ctx.maxtok)), ctx.anyrule())]))
    out.append(("C09", "a restriction has not both a wildcard and a relation", "subset", L("relationDefTypeRestrictionBase"), alt(no_star, no_hash), False))
    hdr = alt(r("modelHeader"), r("moduleHeader"))
    nohdr = star(alt(ctx.anytok(), ("set", ((-1, -1),)), *[("call", i) for n, i in ctx.prule.items() if n not in ("modelHeader", "moduleHeader")]))
    out.append(("C09", "main has exactly one of the model/module headers", "subset", L("main"), seq(nohdr, hdr, nohdr), False))
    out.append(("C09", "a container parameter type has exactly one non-nested element type", "equal", L("parameterType"),
                alt(t("CONDITION_PARAM_TYPE"), seq(t("CONDITION_PARAM_CONTAINER"), t("LESS"), t("CONDITION_PARAM_TYPE"), t("GREATER"))), False))
    out.append(("C02", "a condition has at least one parameter (a parameter-less condition has no DSL form)", "subset", L("condition"),
                seq(sigstar, r("conditionParameter"), sigstar), False))
    out.append(("C09", "extend is only admitted in front of a type definition", "subset", L("typeDef"),
                seq(sigstar, t("TYPE"), WS, r("extended_identifier"), sigstar), False))
    # ---- C03
    tr = r("relationDefTypeRestriction")
    out.append(("C03", "blanks are admitted around brackets and commas of a restriction list", "subset",
                seq(t("LBRACKET"), opt(WS), tr, opt(WS), star(seq(t("COMMA"), opt(WS), tr, opt(WS))), t("RPRACKET")), L("relationDefDirectAssignment"), False))
    base = r("relationDefTypeRestrictionBase")
    out.append(("C03", "a restriction may be wrapped in line breaks (lists spread over several lines)", "subset",
                seq(opt(NL), alt(base, seq(base, WS, t("KEYWORD_WITH"), WS, r("conditionName"))), opt(NL)), L("relationDefTypeRestriction"), False))
    out.append(("C03", "blanks are admitted around the colon of a relation declaration, comments before it", "subset",
                seq(opt(seq(NL, r("multiLineComment"))), NL, t("DEFINE"), WS, r("relationName"), opt(WS), t("COLON"), opt(WS), r("relationDef")), L("relationDeclaration"), False))
    out.append(("C03", "redundant parentheses nest (with a direct assignment)", "subset",
                seq(t("LPAREN"), star(WS), alt(r("relationDef"), r("relationRecurseNoDirect")), star(WS), t("RPAREN")), L("relationRecurse"), False))
    out.append(("C03", "keywords are admitted as names", "subset",
                alt(t("MODEL"), t("SCHEMA"), t("TYPE"), t("RELATION"), t("IDENTIFIER"), t("MODULE"), t("EXTEND")), L("identifier"), False))
    out.append(("C03", "extended identifiers include identifiers", "subset", alt(r("identifier"), t("EXTENDED_IDENTIFIER")), L("extended_identifier"), False))
    out.append(("C03", "a comment block may precede a type definition", "subset",
                seq(opt(seq(NL, r("multiLineComment"))), NL, opt(seq(t("EXTEND"), WS)), t("TYPE"), WS, r("extended_identifier"), opt(seq(NL, t("RELATIONS"), plus(r("relationDeclaration"))))), L("typeDef"), False))
    out.append(("C03", "a comment block may precede the model header", "subset",
                seq(opt(seq(r("multiLineComment"), NL)), t("MODEL"), NL, t("SCHEMA"), WS, t("SCHEMA_VERSION"), opt(WS)), L("modelHeader"), False))
    out.append(("C03", "a comment block may precede the module header", "subset",
                seq(opt(seq(r("multiLineComment"), NL)), t("MODULE"), WS, r("identifier"), opt(WS)), L("moduleHeader"), False))
    out.append(("C03", "a comment is a '#' line and comments stack", "subset",
                seq(t("HASH"), star(("set", A.complement(((ctx.tok_id["NEWLINE"], ctx.tok_id["NEWLINE"]),), 1, ctx.maxtok))), opt(seq(NL, r("multiLineComment")))), L("multiLineComment"), False))
    out.append(("C03", "main admits blank lines around every section", "subset",
                seq(opt(WS), opt(NL), hdr, opt(NL), r("typeDefs"), opt(NL), r("conditions"), opt(NL), ("set", ((-1, -1),))), L("main"), False))
    # lexer
    LX = ctx.lrule_lang
    lw = ("call", ctx.lrule["WHITESPACE"])
    ln = ("call", ctx.lrule["NEWLINE"])
    out.append(("C03", "WHITESPACE covers runs of blanks, tabs and form feeds", "equal", plus(cset(" \t\x0c")), LX("WHITESPACE"), True))
    out.append(("C03", "NEWLINE covers LF, CRLF, CR and FF with blanks on either side, repeated (blank lines, indentation)", "subset",
                seq(opt(lw), alt(seq(opt(chars("\r")), chars("\n")), chars("\r"), chars("\x0c")), opt(lw), opt(ln)), LX("NEWLINE"), True))
    # a comment ends where the line ends: every line break of the grammar (LF, CR, FF as in NEWLINE) - a comment token
    # that runs over one of them swallows the following lines
    if "CEL_COMMENT" in ctx.lrule:
        out.append(("C03", "a // comment ends at the line break of the grammar (LF or CR)", "subset", LX("CEL_COMMENT"),
                    star(("set", A.complement(((10, 10), (13, 13)), 0, 0x10FFFF))), True))
    letter = ("call", ctx.lrule["LETTER"])
    digit = ("call", ctx.lrule["DIGIT"])
    us = chars("_")
    out.append(("C03", "dotted/slashed/dashed names are EXTENDED_IDENTIFIERs", "subset",
                seq(alt(letter, us), star(seq(opt(alt(("call", ctx.lrule["SLASH"]), ("call", ctx.lrule["DOT"]), ("call", ctx.lrule["MINUS"]))), plus(alt(letter, digit, us))))), LX("EXTENDED_IDENTIFIER"), True))
    return out


def run():
    ctx = Ctx()
    z3 = C.Z3()
    results = []
    for prop, name, kind, lhs, rhs, lexer in obligations(ctx):
        sets = []
        C.collect_sets(lhs, sets)
        C.collect_sets(rhs, sets)
        classes = C.minterms(sets)
        rule_names = ctx.li["rule names"] if lexer else ctx.pi["rule names"]
        ra, rb = C.reglan(lhs, classes), C.reglan(rhs, classes)
        queries = [("lhs-minus-rhs", ra, rb)]
        if kind == "equal":
            queries.append(("rhs-minus-lhs", rb, ra))
        for sub, l1, l2 in queries:
            v, w = z3.nonempty("(re.diff %s %s)" % (l1, l2), model=True)
            results.append({"property": prop, "name": name + " [" + sub + "]", "verdict": v,
                            "witness": C.decode_witness(w, classes, rule_names, ctx.sym, lexer) if v == "sat" else None})
        # vacuity guard: the left-hand side is not empty
        v, _ = z3.nonempty(ra)
        results.append({"property": prop, "name": name + " [vacuity: lhs non-empty]", "verdict": "unsat" if v == "sat" else "sat", "witness": None if v == "sat" else "left-hand side is empty"})
    z3.close()
    results.extend(direct_checks(ctx))
    return results, {"z3_calls": z3.calls, "z3_s": round(z3.secs, 2)}


def direct_checks(ctx):
    """Structural facts read off the two ATNs (compared directly, no solver): a token type that a parser rule expects
    must be delivered to the parser - a lexer rule that sends it to another channel or skips it makes that part of the
    parser rule dead, and the text it stands for never reaches the listener."""
    out = []
    expected = set()
    for (_, _, typ, a1, a2, _) in ctx.patn.edges:
        if typ == 5:          # ATOM
            expected.add(a1)
        elif typ == 2:        # RANGE
            expected.update(range(a1, a2 + 1))
        elif typ == 7:        # SET (NOTSET/WILDCARD accept whatever arrives and expect nothing in particular)
            for lo, hi in ctx.patn.sets[a1][1]:
                expected.update(range(lo, hi + 1))
    names = ctx.li["rule names"]
    for (_, _, typ, rule, act, _) in ctx.latn.edges:
        if typ != 6 or act < 0 or act >= len(ctx.latn.actions):
            continue
        atype, d1, _ = ctx.latn.actions[act]
        hidden = (atype == 0 and d1 != 0) or atype == 6
        tt = ctx.latn.rule_token[rule] if rule < len(ctx.latn.rule_token) else 0
        if hidden and tt in expected:
            users = sorted({ctx.pi["rule names"][ctx.patn.states[e[0]][1]] for e in ctx.patn.edges
                            if (e[2] == 5 and e[3] == tt) or (e[2] == 7 and any(lo <= tt <= hi for lo, hi in ctx.patn.sets[e[3]][1]))})
            out.append({"property": "C03", "name": "a token the parser expects is delivered to it: %s" % names[rule], "verdict": "sat",
                        "witness": "lexer rule %s sends its token to %s, parser rule(s) %s expect it: the text of such a token never reaches the listener (e.g. a // comment inside a condition expression is dropped from the expression)"
                                   % (names[rule], "channel %d" % d1 if atype == 0 else "skip", ", ".join(users))})
    if not out:
        out.append({"property": "C03", "name": "every token the parser expects is delivered to it", "verdict": "unsat", "witness": None})
    return out
