#!/usr/bin/env python3
"""agent_prompt.py <PID> <round tag>  -> prompt text for a mutation sub-agent (stdout).
The agent gets the property text, a scratch worktree and the list of spots tried before
(taken from seeded/*/meta.json summaries) - nothing about the checks themselves."""
import json, sys, os, glob
pid, tag = sys.argv[1], sys.argv[2]
props = {}
for l in open('/verif/properties.jsonl'):
    d = json.loads(l); props[d['id']] = d
p = props[pid]
tried = []
for d in sorted(glob.glob(f'/verif/seeded/{pid}-m*')):
    try:
        m = json.load(open(d + '/meta.json'))
        tried.append('- ' + (m.get('summary') or '')[:420].replace('\n', ' '))
    except Exception:
        pass
wt = f'/tmp/{tag}/wt-{pid}'
out = f'/tmp/{tag}/out/{pid}'
print(f"""You are helping to evaluate how well a verification effort detects regressions in the open-source project openfga/language (an OpenFGA authorization-model DSL toolkit; the Go implementation is under pkg/go). You work ONLY inside your own scratch git worktree {wt} (already created, at the project's current HEAD) and write your deliverables to {out}/ . Never touch /repo or /verif, do not read /verif.

Every shell call needs: export GOFLAGS=-mod=mod GOPROXY=off GOSUMDB=off GOTOOLCHAIN=local   (no network; go test for the Go module: cd {wt}/pkg/go && go test -vet=off -count=1 ./... ; it takes about 1-2 minutes. Other CPU-heavy jobs run on this machine: do not run more than one go command at a time and do not use -race or -count above 50 on the whole suite.)

The semantic property in question (id {pid}):

TITLE: {p['title']}

STATEMENT: {p['statement']}

QUANTIFIER: {json.dumps(p.get('quantifier'))}

{('ANCHORS: ' + json.dumps(p.get('anchors') or p.get('code_anchors') or p.get('anchored_in'))) if (p.get('anchors') or p.get('code_anchors') or p.get('anchored_in')) else ''}

YOUR TASK: produce TWO different, independent changes ("m1" and "m2") to openfga/language source code (pkg/go, or grammar/generated files if the property is about them) such that each change
 (a) still compiles, and the complete existing Go test suite still passes with it (run it!),
 (b) breaks the property above - there is at least one input / sequence / schedule for which the property's statement is false with the change while it is true without it,
 (c) is REALISTIC: the kind of slip or well-meant refactoring/optimisation a maintainer could commit (off-by-one, wrong operand, early break/continue, a cache, an in-place operation on shared data, a condition that is slightly too narrow/wide, a changed loop bound, a prefix match for an exact match, a forgotten case of a switch, ...), NOT a blatant sabotage,
 (d) needs something SPECIFIC to manifest - an unusual input, a particular nesting, a multi-step sequence, a particular map-iteration order, two cooperating sites that each look fine alone - so that ordinary use and the existing tests do not expose it at once.
Read the relevant code first; find places where the existing tests are thin. The two changes must be at different places / of different nature.

The following spots were already used in earlier rounds - do NOT reuse them or close variants of them; look elsewhere (other functions, other clauses of the property statement, other inputs):
{chr(10).join(tried) if tried else '(none)'}

DELIVERABLES for each change k in (m1, m2), in {out}/mk/ :
 - patch.diff : output of `git diff` in the worktree with only that change applied (must apply with `git apply` to a clean checkout of HEAD).
 - demo_test.go : a Go test file (package of the directory it is to be placed in; first line a comment `// place in: pkg/go/<dir>` naming the directory, e.g. `// place in: pkg/go/transformer`), self-contained, that FAILS with the change applied and PASSES on the unchanged tree (run both ways, deterministic if possible; if it depends on map order, loop enough times inside the test to make failure near-certain with the change and impossible without).  Test names must not collide with existing ones (prefix TestDemo{pid}R4...).
 - meta.json : {{"property": "{pid}", "summary": "<file, function, what was changed>", "needs": "<what specific input/sequence/order it needs to manifest and why existing tests miss it>", "files": [...], "verified": "<the commands you ran and what they showed>"}}
Work on one change at a time: apply, build, run the full suite, write and run the demo both ways, save the deliverables, then `git checkout -- .` and remove your demo file before starting the next. At the end leave the worktree clean. If a candidate change makes an existing test fail, it does not qualify - choose another. Finally report in 5-10 lines what the two changes are. If along the way you notice an actual bug in the unchanged code related to this property, mention it in your report (with the input that shows it).
""")
