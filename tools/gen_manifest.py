#!/usr/bin/env python3
"""Writes /verif/MANIFEST.json from the table below (kept next to check.py's REGISTRY)."""
import json

A = "gosymx"
B = "atnre"
MC = "model_checking"

CHECKS = {
    "C03": (A, MC, "bounded symbolic execution of the real comment/whitespace pre-pass of ParseDSL (cut at the hand-over to the lexer): layout lemmas for every byte string up to the bound",
            "pre-pass lemmas only so far; listener lemma and grammar facts are being added; ANTLR runtime conformance to its ATN is outside",
            "SSA symbolic execution + SMT (bit-vectors), native replay"),
    "C14": (A, MC, "sortByModule executed symbolically on all key pairs/triples up to the bound: strict weak order consistent with the documented key (solver verdict per path)",
            "comparator lemmas; canonicity/inertness harnesses are being added; protojson key order is outside",
            "SSA symbolic execution + SMT (bit-vectors), native replay"),
    "C15": (A, MC, "bounded symbolic execution of the real TransformModFile and the real net/url decoder: every byte string up to the stated length, every node kind, symbolic line/column; counterexamples replayed natively through the real yaml.v3",
            "yaml.Unmarshal is a stub (arbitrary node per key); z3 5.1.0 and the SSA interpreter are trusted; strings longer than the bound are outside",
            "SSA symbolic execution + SMT (bit-vectors), native replay"),
    "C16": (A, MC, "line/column lookups of the merger on symbolic declaration lines (which names are prefixes of each other is the solver's choice), ConstructLineAndColumnData, pre-pass position lemma",
            "ANTLR token positions are outside; merge-level positions are being added",
            "SSA symbolic execution + SMT (bit-vectors), native replay"),
    "C18": (A + "+" + B, "proof", "the ten validators are executed symbolically on an arbitrary string (patterns computed by the real code); every clause is a regular-language emptiness/inclusion query decided by z3 5.1.0 for strings of any length; sat witnesses replayed through the real validators",
            "solver verdicts (z3 5.1.0 sequence theory) are trusted, not machine-checked proofs; RE2 semantics from regexp/syntax; JS/Java dialects outside",
            "SSA symbolic execution + SMT regular-language (RegLan) queries"),
}

NOT_APPLICABLE = {
    "C17": "every clause is about gonum multigraph/topo/dot behaviour, which a hand-written SSA encoder cannot reach (reflection-based iterators); stubbing gonum would stub away the property",
}

PENDING = {}  # property -> reason (not yet built); listed under not_applicable until a check exists

ALL = ["C%02d" % i for i in range(1, 20)]


def main():
    checks = []
    for pid in sorted(CHECKS):
        eng, cat, text, note, tech = CHECKS[pid]
        checks.append({
            "property_id": pid,
            "quick_cmd": "python3 /verif/check.py %s --tier quick" % pid,
            "thorough_cmd": "python3 /verif/check.py %s --tier thorough" % pid,
            "evidence_file": "/verif/evidence/%s.json" % pid,
            "replay_cmd_template": "python3 /verif/check.py --replay {path}",
            "engine": eng,
            "level_claimed": {"category": cat, "text": text, "design_ref": "DESIGN.md section 6 " + pid},
            "level_note": note,
            "technique": tech,
        })
    na = [{"property_id": p, "reason": r} for p, r in sorted(NOT_APPLICABLE.items())]
    for p in ALL:
        if p not in CHECKS and p not in NOT_APPLICABLE:
            na.append({"property_id": p, "reason": PENDING.get(p, "no check registered yet in this round (harness under construction, see DESIGN.md section 9); not claimed")})
    m = {
        "version": 1,
        "setup_cmd": "cd /verif/engine && GOFLAGS=-mod=mod GOPROXY=off GOSUMDB=off GOTOOLCHAIN=local go build -o /verif/bin/gosymx ./cmd/gosymx",
        "hooks": {
            "guard": "verif",
            "enable": "no source hooks in /repo: harnesses and interception hooks are injected with go/packages overlays (executor) and go test -overlay (native replay); -tags verif is passed",
            "baseline_off_cmd": "cd /repo/pkg/go && GOFLAGS=-mod=mod GOPROXY=off GOSUMDB=off go test -vet=off -count=1 -timeout 25m ./...",
            "source_commits": [],
            "add_only": True,
        },
        "engines": [
            {"name": A, "path": "/verif/engine", "serves_properties": sorted(p for p in CHECKS if A in CHECKS[p][0]),
             "kind_free_text": "symbolic executor for Go (fork of x/tools go/ssa/interp): SSA of /repo's current tree -> SMT-LIB (QF_BV + RegLan) -> z3 5.1.0, path exploration by re-execution, native replay of every witness"},
            {"name": B, "path": "/verif/atnre", "serves_properties": sorted(p for p in CHECKS if B in CHECKS[p][0]),
             "kind_free_text": "regular-language queries (SMT RegLan, z3 5.1.0) over the validator languages and the serialized ANTLR automata"},
        ],
        "checks": checks,
        "not_applicable": na,
        "notes": "fix: commits in /repo and recorded findings are listed in /verif/known_findings.json; seeded changes in /verif/seeded",
    }
    json.dump(m, open("/verif/MANIFEST.json", "w"), indent=1)
    print("MANIFEST.json: %d checks, %d not claimed" % (len(checks), len(na)))


if __name__ == "__main__":
    main()
