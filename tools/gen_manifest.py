#!/usr/bin/env python3
"""Writes /verif/MANIFEST.json from the table below (kept next to check.py's REGISTRY)."""
import json

A = "gosymx"
B = "atnre"
MC = "model_checking"

CHECKS = {
    "C03": (A, MC, "bounded symbolic execution of the real comment/whitespace pre-pass of ParseDSL (cut at the hand-over to the lexer): layout lemmas for every byte string up to the bound",
            "pre-pass lemmas only so far; listener lemma and grammar facts are being added; ANTLR runtime conformance to its ATN is outside",
            "SSA symbolic execution + SMT (bit-vectors), native replay"),
    "C14": (A, MC, "sortByModule executed symbolically on all key pairs/triples up to the bound: strict weak order consistent with the documented key (solver verdict per path)",
            "comparator lemmas; canonicity/inertness harnesses are being added; protojson key order is outside",
            "SSA symbolic execution + SMT (bit-vectors), native replay"),
    "C15": (A, MC, "bounded symbolic execution of the real TransformModFile and the real net/url decoder: every byte string up to the stated length, every node kind, symbolic line/column; counterexamples replayed natively through the real yaml.v3",
            "yaml.Unmarshal is a stub (arbitrary node per key); z3 5.1.0 and the SSA interpreter are trusted; strings longer than the bound are outside",
            "SSA symbolic execution + SMT (bit-vectors), native replay"),
    "C16": (A, MC, "line/column lookups of the merger on symbolic declaration lines (which names are prefixes of each other is the solver's choice), ConstructLineAndColumnData, pre-pass position lemma",
            "ANTLR token positions are outside; merge-level positions are being added",
            "SSA symbolic execution + SMT (bit-vectors), native replay"),
    "C18": (A + "+" + B, "proof", "the ten validators are executed symbolically on an arbitrary string (patterns computed by the real code); every clause is a regular-language emptiness/inclusion query decided by z3 5.1.0 for strings of any length; sat witnesses replayed through the real validators",
            "solver verdicts (z3 5.1.0 sequence theory) are trusted, not machine-checked proofs; RE2 semantics from regexp/syntax; JS/Java dialects outside",
            "SSA symbolic execution + SMT regular-language (RegLan) queries"),
}

TECH = "SSA symbolic execution + SMT (bit-vectors), schedule exploration, native replay"
CHECKS.update({
    "C02": (A, MC, "the real printer (jsontodsl.go) executed on every rewrite tree up to the node/depth bound and on symbolic names: err == nil iff expressible (independent predicate), text equals the canonical rendering of the normalised model written from the property, IsRelationAssignable; model frozen",
            "parse-back of the produced text is decided on the text, not through the real parser (the listener half is planned with C01); bounded tree size", TECH),
    "C04": (A, MC, "strategy/edge kernels on symbolic weight maps (presence and values are solver variables) and the whole Build against an independent fixpoint/longest-walk oracle on every model of the stated families under the stated iteration orders",
            "models outside the families and orders outside the stated policies are outside; operand-grouping defect recorded as known finding", TECH),
    "C05": (A, MC, "err == nil iff the independent well-foundedness verdict, error wraps a sentinel, on every model of the families under every explored iteration order",
            "family and order bounds as in evidence; operand-grouping defect recorded as known finding", TECH),
    "C06": (A, MC, "one verdict and one digest (all weights and wildcard sets) per model across all explored iteration orders of the builder's maps (driver groups paths by input decisions)",
            "goroutines/concurrent builds are outside (not modelled); orders limited to the stated policies", TECH),
    "C07": (A, MC, "the real TransformModuleFilesToModel + line/column helpers + GetModuleForObjectTypeRelation on file sets whose names are symbolic (the solver chooses which declarations collide): verdict iff independent conflict predicate, conservation and attribution on success, file/position on conflict",
            "per-file parse replaced by a stub contract (validated natively on every replayed witness); bounded numbers of files/declarations", TECH),
    "C08": (A, MC, "panic monitor of the executor on degenerate protobuf models through the printer, arbitrary yaml nodes through TransformModFile, faulty module files through the merge",
            "only the hand-written code: arbitrary bytes through ANTLR/protojson/yaml.v3 and the complexity bound are outside (not encoded)", TECH),
    "C10": (A, MC, "the built graph compared node by node and edge by edge (kinds, order, tupleset labels, ordered condition sets) with a spec graph computed independently from the model, model frozen",
            "families as in evidence", TECH),
    "C11": (A, MC, "node and edge wildcard lists compared (as sets, no duplicates) with reachability of T:* nodes in the spec graph on every family member and explored order",
            "families and orders as in evidence", TECH),
    "C12": (A, MC, "self-composition: two merges of the same symbolic file set with independent map iteration orders give equal models / equal error lists; swapping adjacent files changes neither verdict nor the set of type definitions",
            "parser stub as C07; bounded file sets", TECH),
    "C13": (A, MC, "frozen-object monitor: no store into anything reachable from the model/file list/string handed to the printer, the graph builders, the merge and the string entry points; global-store monitor: no store into a package-level variable of the hand-written packages nor into any object reachable from one (the channels through which calls could race or remember earlier calls); results independent of earlier builds, also with one builder instance reused",
            "data races, goroutines and parser-cache history are outside (not applicable to this technique)", TECH),
})

CHECKS.update({
    "C09": (B, "proof", "the grammar-level structural rules (no operator mixing, direct assignment only first, non-empty restriction list, no wildcard+relation, exactly one header, container element type) as regular-language inclusions on the ATN that the Go parser interprets, decided by z3 5.1.0 for words of any length",
            "solver verdicts trusted; that the ANTLR runtime reports every deviation from the ATN is outside; listener-raised rejections are not yet covered", "SMT regular-language (RegLan) inclusion queries on the serialized ATN"),
    "C19": (B, "proof", "per rule of both grammars the shallow language written in the .g4 equals the language of the rule's sub-automaton in the serialized ATN of the Go package (two RegLan emptiness queries per rule, no length bound); JS/Java/.interp ATNs compared with Go's (by per-rule language queries when arrays differ); vocabularies, modes, actions, listener callbacks compared directly",
            "solver verdicts trusted; generated code beyond the ATN and tables is outside; JS/Java parsers are not run", "SMT regular-language (RegLan) equality queries"),
})

CHECKS["C01"] = (A, MC, "the real listener (walked by the real ParseTreeWalker over grammar-conforming parse trees built from the generated context classes), the real printer and again the listener: rendering the parser's model directly succeeds, the text is the canonical document, re-parsing gives the first model, the text is byte-stable; the JSON string API (TransformDSLToJSON, TransformJSONStringToDSL, LoadJSONStringToProto) executed end to end behind a protojson stub; all tree shapes up to the bound, names symbolic",
                 "lexer+parser replaced by the parser stub, protojson by a structural-copy stub (both contracts validated natively on replayed witnesses and path samples through the real ParseDSL / protojson); bounded shapes", TECH)
CHECKS["C03"] = (A + "+" + B, MC, "pre-pass lemmas on all byte strings up to the bound (line feeds and carriage returns as line ends, columns preserved); every generated parse tree is accepted rule by rule by the ATN of the Go parser; listener lemma (model == direct reading of the tree, independent of optional layout tokens, comments, wrapped condition expressions, long operand chains) on generated parse trees; layout facts of the grammar as regular-language inclusions on the ATN (any length)",
                 "ANTLR runtime conformance to its ATN is outside (residual); parser stub contract validated natively on sampled witnesses", TECH + " + RegLan inclusion queries on the ATN")
CHECKS["C09"] = (A + "+" + B, MC, "grammar-level structural rules as regular-language inclusions on the ATN the Go parser interprets (any length); listener-raised rejections (duplicate relation/condition/parameter, extend under a model header, repeated extend) on generated trees whose names are symbolic: rejected iff a rule is broken, accepted documents reflect every declaration",
                 "that the ANTLR runtime reports every deviation from the ATN is outside (residual); parser stub", TECH + " + RegLan inclusion queries on the ATN")
CHECKS["C16"] = (A, MC, "SyntaxError stores line-1/column for arbitrary positions with or without offending token; pre-pass keeps lines and columns; listener-raised errors sit on the name token of a declaration; merge conflicts name the file and the line/column of the conflicting declaration (names symbolic, prefixes and same-named relations of other types chosen by the solver); line/column helper lemmas",
                 "ANTLR's own token positions with respect to the cleaned text are outside; parser stub / merge stub contracts validated natively", TECH)

CHECKS["C17"] = (A, MC, "the real plain graph code and gonum's multigraph, topo and DOT encoder executed on every model of the stated families: nodes and typed lines equal a spec graph computed independently from the rewrites, label lookup, reversal (every line flipped, direction flipped, nodes kept, twice = same DOT text), path duality for all label pairs, one DOT text per model across the explored map orders and ULID orders, compile-time cycle iff a pure computed cycle of two or more relations, none for acyclic models",
                 "gonum's map iterator (unsafe/go:linkname) is replaced by an equivalent plain-Go range loop for the executor and the native replay (harness/dep/gonum_iterator); orders limited to the stated sites; models outside the families are outside", TECH)
CHECKS["C08"] = (A, MC, "panic monitor of the executor on degenerate protobuf models through the printer and both graph builders, arbitrary yaml nodes through TransformModFile, faulty module files through the merge, error-recovery parse trees through the listener, malformed lines through the line lookups; work bound: instructions executed by both graph builders, the cycle query, the printer, the merge and the listener on layered/nested/clique model families stay under a stated quadratic budget, and the weighted builder's work at doubled depth stays within the quadratic growth factor",
                 "only the hand-written code: arbitrary bytes through the ANTLR lexer/parser, protojson and yaml.v3 are outside (not encoded); the work bound is decided on the stated families only, the lexer's behaviour on form feeds is outside", TECH + " + instruction budget (zzverif.Budget)")

NOT_APPLICABLE = {}

PENDING = {}  # property -> reason (not yet built); listed under not_applicable until a check exists

ALL = ["C%02d" % i for i in range(1, 20)]


def main():
    checks = []
    for pid in sorted(CHECKS):
        eng, cat, text, note, tech = CHECKS[pid]
        checks.append({
            "property_id": pid,
            "quick_cmd": "python3 /verif/check.py %s --tier quick" % pid,
            "thorough_cmd": "python3 /verif/check.py %s --tier thorough" % pid,
            "evidence_file": "/verif/evidence/%s.json" % pid,
            "replay_cmd_template": "python3 /verif/check.py --replay {path}",
            "engine": eng,
            "level_claimed": {"category": cat, "text": text, "design_ref": "DESIGN.md section 6 " + pid},
            "level_note": note,
            "technique": tech,
        })
    na = [{"property_id": p, "reason": r} for p, r in sorted(NOT_APPLICABLE.items())]
    for p in ALL:
        if p not in CHECKS and p not in NOT_APPLICABLE:
            na.append({"property_id": p, "reason": PENDING.get(p, "no check registered yet in this round (harness under construction, see DESIGN.md section 9); not claimed")})
    m = {
        "version": 1,
        "setup_cmd": "cd /verif/engine && GOFLAGS=-mod=mod GOPROXY=off GOSUMDB=off GOTOOLCHAIN=local go build -o /verif/bin/gosymx ./cmd/gosymx",
        "hooks": {
            "guard": "verif",
            "enable": "no source hooks in /repo: harnesses and interception hooks are injected with go/packages overlays (executor) and go test -overlay (native replay); -tags verif is passed",
            "baseline_off_cmd": "cd /repo/pkg/go && GOFLAGS=-mod=mod GOPROXY=off GOSUMDB=off GOTOOLCHAIN=local go test -vet=off -count=1 -timeout 25m ./...",
            "source_commits": [],
            "add_only": True,
        },
        "engines": [
            {"name": A, "path": "/verif/engine", "serves_properties": sorted(p for p in CHECKS if A in CHECKS[p][0]),
             "kind_free_text": "symbolic executor for Go (fork of x/tools go/ssa/interp): SSA of /repo's current tree -> SMT-LIB (QF_BV + RegLan) -> z3 5.1.0, path exploration by re-execution, native replay of every witness"},
            {"name": B, "path": "/verif/atnre", "serves_properties": sorted(p for p in CHECKS if B in CHECKS[p][0]),
             "kind_free_text": "regular-language queries (SMT RegLan, z3 5.1.0) over the validator languages and the serialized ANTLR automata"},
        ],
        "checks": checks,
        "not_applicable": na,
        "notes": "fix: commits in /repo and recorded findings are listed in /verif/known_findings.json; seeded changes in /verif/seeded",
    }
    json.dump(m, open("/verif/MANIFEST.json", "w"), indent=1)
    print("MANIFEST.json: %d checks, %d not claimed" % (len(checks), len(na)))


if __name__ == "__main__":
    main()
