#!/bin/bash
# usage: try_adhoc.sh <patch.diff (absolute)> <PID> '<jobs json>' ['<reach json>']  - ad-hoc jobs against a scratch worktree with the patch
set -u
patch=$1; pid=$2; jobs=$3; reach=${4:-{\}}
wt=$(mktemp -d /tmp/mutrun-XXXXXX); rmdir "$wt"
git -C /repo worktree add -q --detach "$wt" HEAD || exit 2
if ! git -C "$wt" apply "$patch"; then echo "PATCH DOES NOT APPLY"; git -C /repo worktree remove --force "$wt"; exit 2; fi
VERIF_REPO=$wt VERIF_EVIDENCE_DIR=/tmp/mutrun-evidence VERIF_REPLAY_DIR=/tmp/mutrun-replays python3 /verif/check.py --adhoc $pid "$jobs" "$reach" 2>/dev/null | grep -E "^(VIOLATION|KNOWN|UNCONFIRMED|INCONCLUSIVE|OK|ENGINE|\.\.\.|  )" | head -12 | cut -c1-300
git -C /repo worktree remove --force "$wt"
