#!/usr/bin/env python3
"""coverage_audit.py - which hand-written functions of /repo/pkg/go were executed symbolically by at least one check
(union of evidence/*.json: coverage.repo_functions_encoded), and which were not."""
import glob, json, os, re, sys
REPO_GO = os.environ.get("VERIF_REPO", "/repo") + "/pkg/go"
cov = {}
for f in sorted(glob.glob(os.path.join(os.path.dirname(__file__), "..", "evidence", "*.json"))):
    e = json.load(open(f))
    for n in e["coverage"].get("repo_functions_encoded", []):
        cov.setdefault(n, set()).add(e["property_id"])
decl = []
for root, _, files in os.walk(REPO_GO):
    rel = os.path.relpath(root, REPO_GO)
    if rel.startswith("gen") or rel.startswith("zzverif") or rel.startswith("testutils") or "/" in rel and rel.split("/")[0] in ("gen",):
        continue
    for fn in files:
        if not fn.endswith(".go") or fn.endswith("_test.go") or fn.startswith("zz_verif"):
            continue
        for i, line in enumerate(open(os.path.join(root, fn)), 1):
            m = re.match(r"func (\((\w+) (\*?)([\w\[\], ]+)\) )?(\w+)\(", line)
            if m:
                pkg = "github.com/openfga/language/pkg/go/" + rel
                if m.group(1):
                    t = m.group(4).split("[")[0]
                    name = "(%s%s.%s).%s" % (m.group(3), pkg, t, m.group(5))
                else:
                    name = "%s.%s" % (pkg, m.group(5))
                decl.append((name, "%s/%s:%d" % (rel, fn, i)))
miss = []
for name, pos in decl:
    hits = [k for k in cov if k == name or k.startswith(name + "$") or k.startswith(name + "[")]
    if not hits:
        miss.append((name, pos))
print("declared hand-written functions: %d, executed symbolically by some check: %d, not executed: %d" % (len(decl), len(decl) - len(miss), len(miss)))
for name, pos in miss:
    print("  NOT EXECUTED", pos, name)
if "-v" in sys.argv:
    for name, pos in decl:
        ps = set()
        for k in cov:
            if k == name or k.startswith(name + "$") or k.startswith(name + "["):
                ps |= cov[k]
        if ps:
            print("  ", pos, name.split("/")[-1], " ".join(sorted(ps)))
