#!/usr/bin/env python3
"""keep_mutation.py <out dir of agent> <seed id> <confirm line>  -> /verif/seeded/<seed id>/"""
import json, os, shutil, sys
src, sid, confirm = sys.argv[1], sys.argv[2], sys.argv[3]
dst = os.path.join("/verif/seeded", sid)
os.makedirs(dst, exist_ok=True)
shutil.copy(os.path.join(src, "patch.diff"), dst)
shutil.copy(os.path.join(src, "demo_test.go"), dst)
meta = json.load(open(os.path.join(src, "meta.json")))
meta["breaks_property"] = meta.get("property")
meta["needs_to_manifest"] = meta.get("needs")
meta["confirmed_by_me"] = {"how": "tools/confirm_mutation.sh in a scratch worktree of /repo: patch applied -> go build + full existing suite; + demo -> demo fails; patch reverted + demo -> demo passes", "result": confirm}
meta.setdefault("detected_by", "see DESIGN.md section 11 (seeded changes)")
json.dump(meta, open(os.path.join(dst, "meta.json"), "w"), indent=1)
print("kept", dst)
