#!/bin/bash
# usage: confirm_mutation.sh <dir with patch.diff demo_test.go meta.json> 
# Confirms in a scratch worktree: (1) patched tree builds and passes the full existing suite,
# (2) patched tree + demo: demo fails, (3) clean tree + demo: demo passes.  Prints a verdict line.
set -u
d=$1
export GOFLAGS=-mod=mod GOPROXY=off GOSUMDB=off GOTOOLCHAIN=local
wt=$(mktemp -d /tmp/mutconf-XXXXXX); rmdir "$wt"
git -C /repo worktree add -q --detach "$wt" HEAD || exit 2
place=$(head -3 "$d/demo_test.go" | grep -o 'place in: *[^ ]*' | sed 's/place in: *//' | head -1)
[ -z "$place" ] && place=pkg/go/transformer
demo="$wt/$place/zz_demo_test.go"
res="confirm: $(basename $(dirname $d))/$(basename $d)"
if ! git -C "$wt" apply "$d/patch.diff"; then echo "$res PATCH-FAILS-TO-APPLY"; git -C /repo worktree remove --force "$wt"; exit 1; fi
if (cd "$wt/pkg/go" && go build ./... && go test -vet=off -count=1 ./... ) > "$wt/.suite.log" 2>&1; then res="$res suite-passes-with-patch=yes"; else res="$res suite-passes-with-patch=NO"; fi
cp "$d/demo_test.go" "$demo"
pkgdir=./${place#pkg/go/}
if (cd "$wt/pkg/go" && go test -vet=off -count=1 $pkgdir ) > "$wt/.demo1.log" 2>&1; then res="$res demo-fails-with-patch=NO"; else res="$res demo-fails-with-patch=yes"; fi
git -C "$wt" apply -R "$d/patch.diff"
if (cd "$wt/pkg/go" && go test -vet=off -count=1 $pkgdir ) > "$wt/.demo2.log" 2>&1; then res="$res demo-passes-clean=yes"; else res="$res demo-passes-clean=NO"; fi
echo "$res"
git -C /repo worktree remove --force "$wt"
