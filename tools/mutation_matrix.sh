#!/bin/bash
# Runs seeded changes under /verif/seeded against the quick check of the property each breaks (scratch worktrees,
# never /repo itself) and writes /verif/seeded/RESULTS.txt.  The checks run from a snapshot of /verif's HEAD (so that
# edits in progress do not disturb a long run); the snapshot is removed at the end.
# usage: mutation_matrix.sh [seed ...]      (default: all; PAR=<n> seeds in parallel, default 3)
# A seed whose meta.json names "check_with": ["C13", ...] is run against those checks instead of its own property's.
out=${OUT:-/verif/seeded/RESULTS.txt}
snap=$(mktemp -d /tmp/verifsnap-XXXXXX)
git -C /verif archive HEAD | tar -x -C $snap
export VERIF_HOME=$snap
(cd $snap/engine && GOFLAGS=-mod=mod GOPROXY=off GOSUMDB=off GOTOOLCHAIN=local go build -o $snap/bin/gosymx ./cmd/gosymx) || exit 2
seeds="$@"
[ -z "$seeds" ] && seeds=$(cd /verif/seeded && ls -d C??-m? C??-m?? 2>/dev/null)
res=$(mktemp -d /tmp/verifmatrix-XXXXXX)
one() {
  s=$1; snap=$2; res=$3
  d=/verif/seeded/$s; id=${s%%-*}
  ids=$(python3 -c "import json,sys; m=json.load(open('$d/meta.json')); print(' '.join(m.get('check_with') or ['$id']))" 2>/dev/null || echo $id)
  r=$($snap/tools/try_mutation.sh $d/patch.diff quick $ids 2>/dev/null)
  nv=$(echo "$r" | grep -c "^VIOLATION")
  first=$(echo "$r" | grep "^VIOLATION" | head -1 | sed 's/.*(\(.*\))$/\1/' | cut -c1-160)
  [ "$nv" -gt 0 ] && verdict=DETECTED || verdict=MISSED
  if [ "$nv" -eq 0 ] && echo "$r" | grep -q "^ENGINE-ERROR"; then verdict=MISSED-ENGINE-ERROR-EXIT-2; first=$(echo "$r" | grep "^ENGINE-ERROR" | head -1 | cut -c1-160); fi
  echo "$r" | grep -q "PATCH DOES NOT APPLY" && verdict=STALE-PATCH-NO-LONGER-APPLIES
  echo "$s check=$(echo $ids | tr ' ' ',') $verdict violations>=$nv  $first" > $res/$s
}
export -f one
echo $seeds | tr ' ' '\n' | xargs -P ${PAR:-3} -I{} bash -c "one {} $snap $res"
if [ $# -gt 0 ] && [ -f $out ]; then
  # partial run: replace the lines of the seeds that were run
  for s in $seeds; do grep -v "^$s " $out > $out.tmp; mv $out.tmp $out; done
  cat $res/* >> $out; sort -o $out $out
else
  cat $res/* | sort > $out
fi
rm -rf $snap $res
