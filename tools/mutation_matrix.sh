#!/bin/bash
# Runs every seeded change under /verif/seeded against the quick check of the property it breaks
# (scratch worktree, never /repo itself) and writes /verif/seeded/RESULTS.txt.
out=/verif/seeded/RESULTS.txt
: > $out.tmp
for d in /verif/seeded/C??-m?; do
  s=$(basename $d); id=${s%%-*}
  res=$(/verif/tools/try_mutation.sh $d/patch.diff quick $id 2>/dev/null)
  nv=$(echo "$res" | grep -c "^VIOLATION")
  first=$(echo "$res" | grep "^VIOLATION" | head -1 | sed 's/.*(\(.*\))$/\1/' | cut -c1-160)
  [ "$nv" -gt 0 ] && verdict=DETECTED || verdict=MISSED
  echo "$s check=$id $verdict violations>=$nv  $first" >> $out.tmp
done
mv $out.tmp $out
