#!/bin/bash
# Runs every seeded change under /verif/seeded against the quick check of the property it breaks
# (scratch worktree, never /repo itself) and writes /verif/seeded/RESULTS.txt.
# The checks run from a snapshot of /verif's HEAD (so that edits in progress do not disturb a long run);
# the snapshot is removed at the end.
out=/verif/seeded/RESULTS.txt
snap=$(mktemp -d /tmp/verifsnap-XXXXXX)
git -C /verif archive HEAD | tar -x -C $snap
export VERIF_HOME=$snap
(cd $snap/engine && GOFLAGS=-mod=mod GOPROXY=off GOSUMDB=off GOTOOLCHAIN=local go build -o $snap/bin/gosymx ./cmd/gosymx)
: > $out.tmp
for d in /verif/seeded/C??-m?; do
  s=$(basename $d); id=${s%%-*}
  res=$($snap/tools/try_mutation.sh $d/patch.diff quick $id 2>/dev/null)
  nv=$(echo "$res" | grep -c "^VIOLATION")
  first=$(echo "$res" | grep "^VIOLATION" | head -1 | sed 's/.*(\(.*\))$/\1/' | cut -c1-160)
  [ "$nv" -gt 0 ] && verdict=DETECTED || verdict=MISSED
  # a seed whose patch no longer applies (the code it mutates was rewritten by a later fix) is stale, not missed
  echo "$res" | grep -q "PATCH DOES NOT APPLY" && verdict=STALE-PATCH-NO-LONGER-APPLIES
  echo "$s check=$id $verdict violations>=$nv  $first" >> $out.tmp
done
mv $out.tmp $out
rm -rf $snap
