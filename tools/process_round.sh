#!/bin/bash
# usage: process_round.sh <tag> <PID> [extra check ids...]
# For each deliverable /tmp/<tag>/out/<PID>/m{1,2,3}: confirm it (scratch worktree), keep it as the next free
# /verif/seeded/<PID>-mN, and run the quick check of <PID> (and the extra ids) against it.  Log: /tmp/<tag>/process-<PID>.log
tag=$1; pid=$2; shift 2
log=/tmp/$tag/process-$pid.log
: > $log
for k in m1 m2 m3; do
  src=/tmp/$tag/out/$pid/$k
  [ -f $src/patch.diff ] || continue
  conf=$(/verif/tools/confirm_mutation.sh $src 2>&1 | tail -1)
  echo "$k: $conf" >> $log
  case "$conf" in
    *suite-passes-with-patch=yes*demo-fails-with-patch=yes*demo-passes-clean=yes*) ;;
    *) echo "$k: NOT KEPT" >> $log; continue;;
  esac
  n=1; while [ -e /verif/seeded/$pid-m$n ] || [ -e /verif/seeded/$pid-m$n-neutralised ]; do n=$((n+1)); done
  python3 /verif/tools/keep_mutation.py $src $pid-m$n "$conf" >> $log
  /verif/tools/try_mutation.sh /verif/seeded/$pid-m$n/patch.diff quick $pid "$@" 2>&1 | cut -c1-330 >> $log
done
echo DONE >> $log
