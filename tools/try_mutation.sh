#!/bin/bash
# usage: try_mutation.sh <patch.diff> <tier> <ID> [<ID>...]
# Applies the patch to a scratch worktree of /repo (never to /repo itself), runs the given
# checks against it (VERIF_REPO), prints their last lines and removes the worktree.
# VERIF_HOME selects another copy of /verif (mutation_matrix.sh runs from a snapshot of HEAD).
set -u
patch=$1; tier=$2; shift 2
wt=$(mktemp -d /tmp/mutrun-XXXXXX)
rmdir "$wt"
git -C /repo worktree add -q --detach "$wt" HEAD || exit 2
if ! git -C "$wt" apply "$patch"; then echo "PATCH DOES NOT APPLY"; git -C /repo worktree remove --force "$wt"; exit 2; fi
mkdir -p /tmp/mutrun-evidence /tmp/mutrun-replays; export VERIF_REPLAY_DIR=/tmp/mutrun-replays
for id in "$@"; do
  echo "=== $id on $(basename $(dirname $patch))/$(basename $patch)"
  VERIF_REPO=$wt VERIF_EVIDENCE_DIR=/tmp/mutrun-evidence python3 ${VERIF_HOME:-/verif}/check.py $id --tier $tier 2>/dev/null | grep -E "^(VIOLATION|KNOWN|UNCONFIRMED|INCONCLUSIVE|OK|ENGINE|\.\.\.)" | head -12
  echo "exit=$?"
done
git -C /repo worktree remove --force "$wt"
