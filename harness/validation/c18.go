package validation

// C18 - the ten validators are executed symbolically on an arbitrary string;
// each reduces to a Boolean combination of regexp.MatchString atoms whose
// patterns are computed by the real fmt.Sprintf calls on the real constants.
// The recorded languages are then compared by regular-language queries
// (/verif/atnre/c18.py).

import "github.com/openfga/language/pkg/go/zzverif"

func VerifC18_Langs() {
	s := zzverif.Opaque("s")
	switch zzverif.Choose("validator", 10) {
	case 0:
		zzverif.Lang("ValidateObject", ValidateObject(s))
	case 1:
		zzverif.Lang("ValidateObjectID", ValidateObjectID(s))
	case 2:
		zzverif.Lang("ValidateRelation", ValidateRelation(s))
	case 3:
		zzverif.Lang("ValidateUserSet", ValidateUserSet(s))
	case 4:
		zzverif.Lang("ValidateUserObject", ValidateUserObject(s))
	case 5:
		zzverif.Lang("ValidateUserWildcard", ValidateUserWildcard(s))
	case 6:
		zzverif.Lang("ValidateUser", ValidateUser(s))
	case 7:
		zzverif.Lang("ValidateRelationshipCondition", ValidateRelationshipCondition(s))
	case 8:
		zzverif.Lang("ValidateType", ValidateType(s))
	case 9:
		zzverif.Lang("Rules", true)
		zzverif.Lang("RuleType="+string(RuleType), true)
		zzverif.Lang("RuleRelation="+string(RuleRelation), true)
		zzverif.Lang("RuleCondition="+string(RuleCondition), true)
		zzverif.Lang("RuleID="+string(RuleID), true)
		zzverif.Lang("RuleObject="+string(RuleObject), true)
	}
}
