package validation

// C18 - the ten validators are executed symbolically on an arbitrary string;
// each reduces to a Boolean combination of regexp.MatchString atoms whose
// patterns are computed by the real fmt.Sprintf calls on the real constants.
// The recorded languages are then compared by regular-language queries
// (/verif/atnre/c18.py).

import "github.com/openfga/language/pkg/go/zzverif"

func VerifC18_Langs() {
	s := zzverif.Opaque("s")
	switch zzverif.Choose("validator", 10) {
	case 0:
		zzverif.Lang("ValidateObject", ValidateObject(s))
	case 1:
		zzverif.Lang("ValidateObjectID", ValidateObjectID(s))
	case 2:
		zzverif.Lang("ValidateRelation", ValidateRelation(s))
	case 3:
		zzverif.Lang("ValidateUserSet", ValidateUserSet(s))
	case 4:
		zzverif.Lang("ValidateUserObject", ValidateUserObject(s))
	case 5:
		zzverif.Lang("ValidateUserWildcard", ValidateUserWildcard(s))
	case 6:
		zzverif.Lang("ValidateUser", ValidateUser(s))
	case 7:
		zzverif.Lang("ValidateRelationshipCondition", ValidateRelationshipCondition(s))
	case 8:
		zzverif.Lang("ValidateType", ValidateType(s))
	case 9:
		zzverif.Lang("Rules", true)
		zzverif.Lang("RuleType="+string(RuleType), true)
		zzverif.Lang("RuleRelation="+string(RuleRelation), true)
		zzverif.Lang("RuleCondition="+string(RuleCondition), true)
		zzverif.Lang("RuleID="+string(RuleID), true)
		zzverif.Lang("RuleObject="+string(RuleObject), true)
	}
}

// ---- the clauses of the property on every ASCII string up to a length bound, through the real
// validators whatever their implementation (regular expressions or string functions).  The unbounded
// check (VerifC18_Langs + /verif/atnre/c18.py) needs validators that are pure regular-expression tests;
// this one does not, and it is what still decides when a validator is rewritten without regexp.

func vCount(s string, c byte) int {
	n := 0
	for i := 0; i < len(s); i++ {
		n += zzverif.IteInt(s[i] == c, 1, 0)
	}
	return n
}

func vHasAny(s string, set string) bool {
	r := false
	for i := 0; i < len(s); i++ {
		for j := 0; j < len(set); j++ {
			r = zzverif.Or(r, s[i] == set[j])
		}
	}
	return r
}

func vBoolInt(b bool) int { return zzverif.IteInt(b, 1, 0) }

// VerifC18_Bounded: one arbitrary string over the characters the rules distinguish.
func VerifC18_Bounded() {
	s := zzverif.Str("s", 0, zzverif.Param("N", 5), "a:#*@ \t")
	obj, id, rel, uset := ValidateObject(s), ValidateObjectID(s), ValidateRelation(s), ValidateUserSet(s)
	uobj, wild, user, cond, typ := ValidateUserObject(s), ValidateUserWildcard(s), ValidateUser(s), ValidateRelationshipCondition(s), ValidateType(s)
	colons, hashes := vCount(s, ':'), vCount(s, '#')
	ws := vHasAny(s, " \t")
	// objects: exactly one ':' with an accepted type in front and an accepted id behind
	zzverif.Assert(zzverif.Implies(zzverif.Or(obj, uobj), colons == 1), "object-has-exactly-one-colon")
	for p := 0; p < len(s); p++ {
		here := zzverif.And(s[p] == ':', vCount(s[:p], ':') == 0)
		zzverif.Assert(zzverif.Implies(zzverif.And(here, zzverif.Or(obj, uobj)), zzverif.And(ValidateType(s[:p]), ValidateObjectID(s[p+1:]))), "object-splits-into-type-and-id")
		// usersets: object, '#', relation
		for q := p + 1; q < len(s); q++ {
			hash := zzverif.And(s[q] == '#', vCount(s[:q], '#') == 0)
			zzverif.Assert(zzverif.Implies(zzverif.And(zzverif.And(here, hash), uset),
				zzverif.And(zzverif.And(ValidateType(s[:p]), ValidateObjectID(s[p+1:q])), ValidateRelation(s[q+1:]))), "userset-splits-into-type-id-relation")
		}
		// typed wildcard: type ":*"
		zzverif.Assert(zzverif.Implies(zzverif.And(here, wild), zzverif.And(ValidateType(s[:p]), p+2 == len(s))), "wildcard-is-type-colon-star")
	}
	zzverif.Assert(zzverif.Implies(uset, zzverif.And(colons == 1, hashes == 1)), "userset-has-one-colon-and-one-hash")
	zzverif.Assert(zzverif.Implies(wild, colons == 1), "wildcard-has-exactly-one-colon")
	// a user is exactly one of userset, object, typed wildcard
	zzverif.Assert(user == (vBoolInt(uset)+vBoolInt(uobj)+vBoolInt(wild) == 1), "user-is-exactly-one-of-userset-object-wildcard")
	zzverif.Assert(zzverif.Implies(user, vBoolInt(uset)+vBoolInt(obj)+vBoolInt(wild) == 1), "user-is-exactly-one-of-userset-object-wildcard")
	// no white space; no separators in types and relations
	zzverif.Assert(zzverif.Implies(zzverif.Or(zzverif.Or(typ, rel), zzverif.Or(id, cond)), zzverif.Not(ws)), "no-whitespace-in-type-relation-id-condition")
	zzverif.Assert(zzverif.Implies(zzverif.Or(typ, rel), zzverif.Not(vHasAny(s, ":#@*"))), "no-separator-in-type-or-relation")
	zzverif.Assert(zzverif.Implies(zzverif.Or(typ, rel), len(s) > 0), "type-and-relation-not-empty")
	zzverif.Reach("checked")
}
