// /verif overlay: the runtime iterator layout is not used (see map.go of this overlay).

package iterator
