// /verif overlay of gonum.org/v1/gonum/graph/iterator/map.go (executor and native replay alike).
//
// The original walks a Go map through the runtime's unexported iterator (unsafe pointers and
// go:linkname into runtime/reflect), which a symbolic executor of Go's SSA form cannot follow.  This
// replacement has the same unexported interface (mapIter with next/id/node/line/weightedLine, reset
// by assigning hiter{}) and the same contract - the entries of the map, each once, in the unspecified
// order of Go's own `range` - but is written in plain Go, so that under the executor the order becomes
// a schedule choice like every other map iteration.  The entries are those present at the first call
// of next (gonum leaves mutation during iteration unspecified).

//go:build !safe
// +build !safe

package iterator

import "gonum.org/v1/gonum/graph"

type hiter struct {
	started bool
	keys    []int64
	pos     int
}

func (h *hiter) initialized() bool { return h.started }

type mapIter struct {
	nodes         map[int64]graph.Node
	edges         map[int64]graph.Edge
	lines         map[int64]graph.Line
	weightedLines map[int64]graph.WeightedLine
	weightedEdges map[int64]graph.WeightedEdge
	byLines       map[int64]map[int64]graph.Line
	byWLines      map[int64]map[int64]graph.WeightedLine
	kind          int
	hiter         hiter
}

func newMapIterNodes(m map[int64]graph.Node) *mapIter { return &mapIter{kind: 0, nodes: m} }
func newMapIterEdges(m map[int64]graph.Edge) *mapIter { return &mapIter{kind: 1, edges: m} }
func newMapIterLines(m map[int64]graph.Line) *mapIter { return &mapIter{kind: 2, lines: m} }
func newMapIterWeightedLines(m map[int64]graph.WeightedLine) *mapIter {
	return &mapIter{kind: 3, weightedLines: m}
}
func newMapIterByWeightedEdges(m map[int64]graph.WeightedEdge) *mapIter {
	return &mapIter{kind: 4, weightedEdges: m}
}
func newMapIterByLines(m map[int64]map[int64]graph.Line) *mapIter {
	return &mapIter{kind: 5, byLines: m}
}
func newMapIterByWeightedLines(m map[int64]map[int64]graph.WeightedLine) *mapIter {
	return &mapIter{kind: 6, byWLines: m}
}

// mapIterKeys: the keys of the map in the order of one `range` over it (one function per kind of map,
// so that a schedule exploration can select the kinds whose order it varies).
func (it *mapIter) mapIterKeys() []int64 {
	switch it.kind {
	case 0:
		return mapIterKeysNodes(it.nodes)
	case 1:
		return mapIterKeysEdges(it.edges)
	case 2:
		return mapIterKeysLines(it.lines)
	case 3:
		return mapIterKeysWeightedLines(it.weightedLines)
	case 4:
		return mapIterKeysWeightedEdges(it.weightedEdges)
	case 5:
		return mapIterKeysByLines(it.byLines)
	}
	return mapIterKeysByWeightedLines(it.byWLines)
}

func mapIterKeysNodes(m map[int64]graph.Node) (keys []int64) {
	for k := range m {
		keys = append(keys, k)
	}
	return keys
}

func mapIterKeysEdges(m map[int64]graph.Edge) (keys []int64) {
	for k := range m {
		keys = append(keys, k)
	}
	return keys
}

func mapIterKeysLines(m map[int64]graph.Line) (keys []int64) {
	for k := range m {
		keys = append(keys, k)
	}
	return keys
}

func mapIterKeysWeightedLines(m map[int64]graph.WeightedLine) (keys []int64) {
	for k := range m {
		keys = append(keys, k)
	}
	return keys
}

func mapIterKeysWeightedEdges(m map[int64]graph.WeightedEdge) (keys []int64) {
	for k := range m {
		keys = append(keys, k)
	}
	return keys
}

func mapIterKeysByLines(m map[int64]map[int64]graph.Line) (keys []int64) {
	for k := range m {
		keys = append(keys, k)
	}
	return keys
}

func mapIterKeysByWeightedLines(m map[int64]map[int64]graph.WeightedLine) (keys []int64) {
	for k := range m {
		keys = append(keys, k)
	}
	return keys
}

func (it *mapIter) current(what string) int64 {
	if !it.hiter.started {
		panic("mapIter." + what + " called before next")
	}
	if it.hiter.pos >= len(it.hiter.keys) {
		panic("mapIter." + what + " called on exhausted iterator")
	}
	return it.hiter.keys[it.hiter.pos]
}

// id returns the key of the iterator's current map entry.
func (it *mapIter) id() int64 { return it.current("id") }

// node returns the value of the iterator's current map entry.
func (it *mapIter) node() graph.Node { return it.nodes[it.current("node")] }

// line returns the value of the iterator's current map entry.
func (it *mapIter) line() graph.Line { return it.lines[it.current("line")] }

// weightedLine returns the value of the iterator's current map entry.
func (it *mapIter) weightedLine() graph.WeightedLine {
	return it.weightedLines[it.current("weightedLine")]
}

// next advances the map iterator and reports whether there is another entry.
func (it *mapIter) next() bool {
	if !it.hiter.started {
		it.hiter = hiter{started: true, keys: it.mapIterKeys()}
	} else {
		if it.hiter.pos >= len(it.hiter.keys) {
			panic("mapIter.next called on exhausted iterator")
		}
		it.hiter.pos++
	}
	return it.hiter.pos < len(it.hiter.keys)
}
