package antlr

// /verif overlay (added to the antlr package for the executor and for the native replay alike; /repo and the
// module cache are untouched): membership of a child sequence in the sub-automaton of one parser rule of the
// deserialised ATN - used by the parse-tree generator of the harnesses to show that every tree it hands to the
// listener is a tree the grammar (as embedded in the generated Go parser) allows.

// VerifRuleAccepts reports whether rule ruleIndex of atn accepts the given sequence of children: child i is a
// rule reference (isRule[i], vals[i] = rule index) or a token (vals[i] = token type).
func VerifRuleAccepts(atn *ATN, ruleIndex int, isRule []bool, vals []int) bool {
	if atn == nil || ruleIndex < 0 || ruleIndex >= len(atn.ruleToStartState) {
		return false
	}
	closure := func(in map[int]ATNState) map[int]ATNState {
		work := make([]ATNState, 0, len(in))
		for _, s := range in {
			work = append(work, s)
		}
		for len(work) > 0 {
			s := work[len(work)-1]
			work = work[:len(work)-1]
			for _, t := range s.GetTransitions() {
				switch t.getSerializationType() {
				case TransitionEPSILON, TransitionPREDICATE, TransitionACTION, TransitionPRECEDENCE:
					tg := t.getTarget()
					if _, seen := in[tg.GetStateNumber()]; !seen {
						in[tg.GetStateNumber()] = tg
						work = append(work, tg)
					}
				}
			}
		}
		return in
	}
	var start ATNState = atn.ruleToStartState[ruleIndex]
	cur := closure(map[int]ATNState{start.GetStateNumber(): start})
	for i := range vals {
		next := map[int]ATNState{}
		for _, s := range cur {
			for _, t := range s.GetTransitions() {
				switch t.getSerializationType() {
				case TransitionRULE:
					rt, ok := t.(*RuleTransition)
					if ok && isRule[i] && rt.getTarget().GetRuleIndex() == vals[i] {
						next[rt.followState.GetStateNumber()] = rt.followState
					}
				case TransitionATOM, TransitionRANGE, TransitionSET, TransitionNOTSET, TransitionWILDCARD:
					if !isRule[i] && t.Matches(vals[i], TokenMinUserTokenType, atn.maxTokenType) {
						tg := t.getTarget()
						next[tg.GetStateNumber()] = tg
					}
				}
			}
		}
		cur = closure(next)
		if len(cur) == 0 {
			return false
		}
	}
	_, ok := cur[atn.ruleToStopState[ruleIndex].GetStateNumber()]
	return ok
}
