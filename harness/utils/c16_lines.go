package utils

// C16 - line lookups of the module merger: the reported line must be the line
// on which the declaration of exactly that name stands.  Lines follow the
// layout the DSL prescribes for declarations:  <indent><keyword> <name><tail>.

import (
	"strings"

	"github.com/openfga/language/pkg/go/zzverif"
)

const verifIdent = "aet_.-" // letters (two of them occur in the keywords) and the punctuation that may continue a name

var verifSeps = []string{" ", "  ", "\t"}

var verifIndents = []string{"", " ", "\t", "  ", "\t "} // the grammar admits blanks and tabs

func verifDeclLines(kw string, nameLen int, tails []string) (names []string, lines []string) {
	cnt := 1 + zzverif.Choose("decls", zzverif.Param("D", 3))
	for i := 0; i < cnt; i++ {
		nm := zzverif.Str("name", 1, nameLen, verifIdent)
		indent := verifIndents[zzverif.Choose("indent", len(verifIndents))]
		tail := tails[zzverif.Choose("tail", len(tails))]
		names = append(names, nm)
		// the grammar admits any run of blanks and tabs between the keyword(s) and the name
		sep := verifSeps[zzverif.Choose("separator", len(verifSeps))]
		lines = append(lines, indent+strings.ReplaceAll(kw, " ", sep)+sep+nm+tail)
	}
	return
}

func verifCheckLookup(kind string, names, lines []string, lookup func(string, []string) int) {
	k := zzverif.Choose("target", len(names))
	got := lookup(names[k], lines)
	// expected: the first line that declares exactly this name
	want := -1
	for i := range names {
		if names[i] == names[k] {
			want = i
			break
		}
	}
	zzverif.Class(kind+"-line-is-the-declaration", "other")
	if got >= 0 && got < len(names) && got != want {
		if len(names[got]) > len(names[k]) && names[got][:len(names[k])] == names[k] {
			zzverif.Class(kind+"-line-is-the-declaration", "earlier line declares a longer name that has the wanted name as prefix")
		}
	}
	zzverif.Assert(got == want, kind+"-line-is-the-declaration")
	zzverif.Reach(kind)
}

func VerifC16_TypeLine() {
	names, lines := verifDeclLines("type", zzverif.Param("N", 2), []string{"", " ", " # c"})
	verifCheckLookup("type", names, lines, GetTypeLineNumber)
}

func VerifC16_ExtendedTypeLine() {
	names, lines := verifDeclLines("extend type", zzverif.Param("N", 2), []string{"", " "})
	verifCheckLookup("extend", names, lines, GetExtendedTypeLineNumber)
}

func VerifC16_ConditionLine() {
	names, lines := verifDeclLines("condition", zzverif.Param("N", 2), []string{"(x: string) {", " (x: int) {"})
	verifCheckLookup("condition", names, lines, GetConditionLineNumber)
}

func VerifC16_RelationLine() {
	names, lines := verifDeclLines("define", zzverif.Param("N", 2), []string{": [user]", " : b", ":b"})
	verifCheckLookup("relation", names, lines, GetRelationLineNumber)
}

// VerifC16_Column: ConstructLineAndColumnData points at the name on that line.
func VerifC16_Column() {
	nm := zzverif.Str("name", 1, zzverif.Param("N", 2), verifIdent)
	indent := strings.Repeat(" ", zzverif.Choose("indent", 4))
	kws := []string{"type", "extend type", "define", "condition"}
	kw := kws[zzverif.Choose("keyword", len(kws))]
	sep := verifSeps[zzverif.Choose("separator", len(verifSeps))]
	line := indent + kw + sep + nm + []string{"", ": a", "(x: int) {", " # t"}[zzverif.Choose("tail", 4)]
	nameAt := len(indent) + len(kw) + len(sep)
	other := "type " + zzverif.Str("other", 1, 2, verifIdent)
	lines := []string{other, line}
	l, c := ConstructLineAndColumnData(lines, 1, nm)
	zzverif.Assert(l.Start == 1 && l.End == 1, "line-range")
	zzverif.Assert(c.End-c.Start == len(nm), "column-width-is-name-length")
	zzverif.Assert(c.Start >= 0 && c.End <= len(line), "column-inside-line")
	if c.Start >= 0 && c.End <= len(line) {
		zzverif.Assert(line[c.Start:c.End] == nm, "column-range-covers-the-name")
	}
	zzverif.Assert(c.Start == nameAt, "column-is-where-the-declared-name-stands")
	l0, c0 := ConstructLineAndColumnData(lines, -1, nm)
	zzverif.Assert(l0.Start == 0 && l0.End == 0 && c0.Start == 0 && c0.End == 0, "unknown-line-gives-zero")
	zzverif.Reach("column")
}
