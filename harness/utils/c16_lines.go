package utils

// C16 - line lookups of the module merger: the reported line must be the line
// on which the declaration of exactly that name stands.  Lines follow the
// layout the DSL prescribes for declarations:  <indent><keyword> <name><tail>.

import (
	"strings"

	"github.com/openfga/language/pkg/go/zzverif"
)

const verifIdent = "aet_.-" // letters (two of them occur in the keywords) and the punctuation that may continue a name

var verifSepsAll = []string{" ", "\t", "\f", "  ", " \f"} // WHITESPACE of the grammar: blanks, tabs and form feeds

var verifIndentsAll = []string{"", "\t", "\f", " ", "\t ", "  "} // the grammar admits blanks, tabs and form feeds

// the first NS separators / NI indents of the lists (parameters; default: all)
func verifSepList() []string    { return verifSepsAll[:zzverif.Param("NS", len(verifSepsAll))] }
func verifIndentList() []string { return verifIndentsAll[:zzverif.Param("NI", len(verifIndentsAll))] }

func verifDeclLines(kw string, nameLen int, tails []string) (names []string, lines []string) {
	cnt := 1 + zzverif.Choose("decls", zzverif.Param("D", 3))
	for i := 0; i < cnt; i++ {
		nm := zzverif.Str("name", 1, nameLen, verifIdent)
		indent := verifIndentList()[zzverif.Choose("indent", len(verifIndentList()))]
		tail := tails[zzverif.Choose("tail", len(tails))]
		names = append(names, nm)
		// the grammar admits any run of blanks and tabs between the keyword(s) and the name
		sep := verifSepList()[zzverif.Choose("separator", len(verifSepList()))]
		// CRSEG=1: the declaration may stand behind a lone carriage return inside the line (a line break of the
		// grammar that the merger's split at line feeds does not see)
		pre := ""
		if zzverif.Param("CRSEG", 0) == 1 {
			pre = []string{"", "\r", "  relations\r", "x # c\r"}[zzverif.Choose("cr-prefix", 4)]
		}
		lines = append(lines, pre+indent+strings.ReplaceAll(kw, " ", sep)+sep+nm+tail)
	}
	return
}

func verifCheckLookup(kind string, names, lines []string, lookup func(string, []string) int) {
	k := zzverif.Choose("target", len(names))
	got := lookup(names[k], lines)
	// expected: the first line that declares exactly this name
	want := -1
	for i := range names {
		if names[i] == names[k] {
			want = i
			break
		}
	}
	zzverif.Class(kind+"-line-is-the-declaration", "other")
	if got >= 0 && got < len(names) && got != want {
		if len(names[got]) > len(names[k]) && names[got][:len(names[k])] == names[k] {
			zzverif.Class(kind+"-line-is-the-declaration", "earlier line declares a longer name that has the wanted name as prefix")
		}
	}
	zzverif.Assert(got == want, kind+"-line-is-the-declaration")
	zzverif.Reach(kind)
}

func VerifC16_TypeLine() {
	names, lines := verifDeclLines("type", zzverif.Param("N", 2), []string{"", " ", " # c"})
	verifCheckLookup("type", names, lines, GetTypeLineNumber)
}

func VerifC16_ExtendedTypeLine() {
	names, lines := verifDeclLines("extend type", zzverif.Param("N", 2), []string{"", " "})
	verifCheckLookup("extend", names, lines, GetExtendedTypeLineNumber)
}

func VerifC16_ConditionLine() {
	names, lines := verifDeclLines("condition", zzverif.Param("N", 2), []string{"(x: string) {", " (x: int) {"})
	verifCheckLookup("condition", names, lines, GetConditionLineNumber)
}

func VerifC16_RelationLine() {
	names, lines := verifDeclLines("define", zzverif.Param("N", 2), []string{": [user]", " : b", ":b"})
	verifCheckLookup("relation", names, lines, GetRelationLineNumber)
}

// VerifC16_Column: ConstructLineAndColumnData points at the name on that line.
func VerifC16_Column() {
	nm := zzverif.Str("name", 1, zzverif.Param("N", 2), verifIdent)
	indent := strings.Repeat(" ", zzverif.Choose("indent", 4))
	kws := []string{"type", "extend type", "define", "condition"}
	kw := kws[zzverif.Choose("keyword", len(kws))]
	sep := verifSepList()[zzverif.Choose("separator", len(verifSepList()))]
	pre := []string{"", "\r", "module m\r", "x # c\r\r"}[zzverif.Choose("cr-prefix", 1+3*zzverif.Param("CRSEG", 0))]
	line := pre + indent + kw + sep + nm + []string{"", ": a", "(x: int) {", " # t", "  ", "\t", "\r", ": a \r", ": [user, group#" + nm + "]  "}[zzverif.Choose("tail", 9)]
	nameAt := len(pre) + len(indent) + len(kw) + len(sep)
	other := "type " + zzverif.Str("other", 1, 2, verifIdent)
	lines := []string{other, line}
	l, c := ConstructLineAndColumnData(lines, 1, nm)
	zzverif.Assert(l.Start == 1 && l.End == 1, "line-range")
	zzverif.Assert(c.End-c.Start == len(nm), "column-width-is-name-length")
	zzverif.Assert(c.Start >= 0 && c.End <= len(line), "column-inside-line")
	if c.Start >= 0 && c.End <= len(line) {
		zzverif.Assert(line[c.Start:c.End] == nm, "column-range-covers-the-name")
	}
	zzverif.Assert(c.Start == nameAt, "column-is-where-the-declared-name-stands")
	l0, c0 := ConstructLineAndColumnData(lines, -1, nm)
	zzverif.Assert(l0.Start == 0 && l0.End == 0 && c0.Start == 0 && c0.End == 0, "unknown-line-gives-zero")
	zzverif.Reach("column")
}

// ---- totality of the line lookups (C08) and their answer on lines that are not declarations (C16)

// verifSpecDeclares is the specification of "this line declares <name> with <keyword>": optional
// blanks/tabs, the words of the keyword and the name separated by non-empty runs of blanks/tabs, and
// the name ends there (end of line or a character that cannot continue a name).  Written as a small
// scanner over indices, independent of the code under test (no Trim/Cut/Fields).
func verifSpecDeclares(line string, words []string, name string) bool {
	i := 0
	blank := func(c byte) bool { return c == ' ' || c == '\t' || c == '\f' }
	for i < len(line) && (blank(line[i]) || line[i] == '\n' || line[i] == '\r' || line[i] == '\v' || line[i] == '\f') {
		i++ // TrimSpace of the whole line comes first in the code: leading white space of any kind is skipped
	}
	for _, w := range words {
		if len(line)-i < len(w) || line[i:i+len(w)] != w {
			return false
		}
		i += len(w)
		j := i
		for j < len(line) && blank(line[j]) {
			j++
		}
		if j == i {
			return false
		}
		i = j
	}
	if len(line)-i < len(name) || line[i:i+len(name)] != name {
		return false
	}
	i += len(name)
	if i == len(line) {
		return true
	}
	c := line[i]
	return !(c == '_' || c == '-' || c == '.' || c == '/' || (c >= '0' && c <= '9') || (c >= 'a' && c <= 'z') || (c >= 'A' && c <= 'Z'))
}

var verifKeywords = [][]string{{"type"}, {"extend", "type"}, {"define"}, {"condition"}}

func verifLookup(k int, name string, lines []string) int {
	switch k {
	case 0:
		return GetTypeLineNumber(name, lines)
	case 1:
		return GetExtendedTypeLineNumber(name, lines)
	case 2:
		return GetRelationLineNumber(name, lines)
	}
	return GetConditionLineNumber(name, lines)
}

// verifOddLine: a line cut out of a declaration at any point - the keyword phrase cut after any of its
// characters (bare keyword, half a keyword, `extend` alone, ...), then optionally blanks, then up to T
// arbitrary characters.
func verifOddLine(k int) string {
	phrase := strings.Join(verifKeywords[k], verifSepList()[zzverif.Choose("separator", len(verifSepList()))])
	cut := zzverif.Choose("cut", len(phrase)+1)
	line := verifIndentList()[zzverif.Choose("indent", len(verifIndentList()))] + phrase[:cut]
	line += []string{"", " ", "\t", "  "}[zzverif.Choose("blanks", 4)]
	return line + zzverif.Str("rest", 0, zzverif.Param("T", 2), "aet \t#:")
}

// VerifC08_OddLines: every lookup on lines that are not well-formed declarations returns (no panic)
// and finds the declaration exactly where the specification says one stands.
func VerifC08_OddLines() {
	k := zzverif.Choose("keyword", len(verifKeywords))
	name := zzverif.Str("name", 1, 2, "aet")
	lines := []string{verifOddLine(k)}
	if zzverif.Choose("second", 2) == 1 {
		lines = append(lines, strings.Join(verifKeywords[k], " ")+" "+name)
	}
	want := -1
	for i, l := range lines {
		if verifSpecDeclares(l, verifKeywords[k], name) {
			want = i
			break
		}
	}
	got := verifLookup(k, name, lines)
	zzverif.Assert(got == want, "odd-line-lookup-agrees-with-specification")
	// the position of a symbol on such a line: inside the line, and on the symbol if it occurs behind the keyword
	l, c := ConstructLineAndColumnData(lines, 0, name)
	zzverif.Assert(l.Start == 0 && l.End == 0, "odd-line-range")
	zzverif.Assert(c.Start >= 0 && c.End-c.Start == len(name), "odd-line-column-width")
	if want == 0 {
		zzverif.Assert(c.End <= len(lines[0]) && lines[0][c.Start:c.End] == name, "odd-line-column-covers-the-name")
		zzverif.Reach("declaration")
	} else {
		zzverif.Reach("no-declaration")
	}
}

// VerifC08_FreeLine: one fully symbolic short line (every string over the letters of `type`, a, blank,
// tab) through the `type` lookup and the column computation.
func VerifC08_FreeLine() {
	line := zzverif.Str("line", 0, zzverif.Param("L", 6), "typea \t")
	name := zzverif.Str("name", 1, 1, "ae")
	lines := []string{line}
	want := -1
	if verifSpecDeclares(line, verifKeywords[0], name) {
		want = 0
	}
	zzverif.Assert(GetTypeLineNumber(name, lines) == want, "free-line-lookup-agrees-with-specification")
	_, c := ConstructLineAndColumnData(lines, 0, name)
	zzverif.Assert(c.Start >= 0 && c.End-c.Start == len(name), "free-line-column-width")
	if want == 0 {
		zzverif.Reach("declaration")
	} else {
		zzverif.Reach("no-declaration")
	}
}
