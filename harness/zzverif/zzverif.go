// Package zzverif is the harness API of /verif (overlaid into the repository
// module at check time; it is not part of openfga/language).
//
// Under the symbolic executor (gosymx) every function here is intercepted by
// name and its body never runs.  Natively (go test -overlay) the bodies replay
// a witness file (VERIF_WITNESS) produced by the executor and record what
// happened (VERIF_OUT), so that every counterexample and every reach label is
// confirmed against the real, natively compiled code.
package zzverif

import (
	"encoding/json"
	"fmt"
	"os"
	"reflect"
	"runtime/debug"
	"strings"
	"time"
)

type inputVal struct {
	Kind string `json:"kind"`
	Tag  string `json:"tag"`
	B    bool   `json:"b,omitempty"`
	I    int64  `json:"i,omitempty"`
	S    []int  `json:"s,omitempty"`
}

type witness struct {
	Harness  string         `json:"harness"`
	Inputs   []inputVal     `json:"inputs"`
	Schedule []int          `json:"schedule,omitempty"`
	Params   map[string]int `json:"params,omitempty"`
}

// Event is one line of the native replay record.
type Event struct {
	Kind   string `json:"kind"` // assert-fail | reach | observe | panic | mismatch | stub | frozen
	Label  string `json:"label,omitempty"`
	Class  string `json:"class,omitempty"`
	Detail string `json:"detail,omitempty"`
}

var (
	cur     *witness
	pos     int
	events  []Event
	classes = map[string]string{}
	frozen  []frozenRec
)

type frozenRec struct {
	label string
	check func() bool
}

// Load starts a native replay of the witness in file.
func Load(file string) error {
	data, err := os.ReadFile(file)
	if err != nil {
		return err
	}
	w := &witness{}
	if err := json.Unmarshal(data, w); err != nil {
		return err
	}
	cur, pos, events, classes, frozen = w, 0, nil, map[string]string{}, nil
	return nil
}

// Finish runs the deferred frozen-object comparisons and returns the record.
func Finish() []Event {
	for _, f := range frozen {
		if !f.check() {
			events = append(events, Event{Kind: "assert-fail", Label: "frozen:" + f.label, Class: classes["frozen:"+f.label], Detail: "argument changed"})
		}
	}
	ev := events
	cur, events = nil, nil
	return ev
}

// RunNative runs fn under a recover and records an uncaught panic the way the
// executor classifies it (the function in which it was raised).
func RunNative(fn func()) {
	defer func() {
		if r := recover(); r != nil {
			if _, ok := r.(skipPanic); ok {
				return
			}
			if s, ok := r.(string); ok && strings.HasPrefix(s, "zzverif:") {
				return
			}
			site := panicSite(string(debug.Stack()))
			events = append(events, Event{Kind: "assert-fail", Label: "panic", Class: site, Detail: fmt.Sprint(r)})
		}
	}()
	fn()
}

// panicSite extracts the innermost non-runtime function from a stack dump
// taken inside a deferred recover.
func panicSite(stack string) string {
	lines := strings.Split(stack, "\n")
	seenPanic := false
	for _, l := range lines {
		if strings.HasPrefix(l, "panic(") {
			seenPanic = true
			continue
		}
		if !seenPanic || strings.HasPrefix(l, "\t") || l == "" {
			continue
		}
		if strings.HasPrefix(l, "runtime.") || strings.HasPrefix(l, "runtime/") {
			continue
		}
		if i := strings.LastIndex(l, "("); i > 0 {
			l = l[:i]
		}
		return l
	}
	return "?"
}

func next(kind, tag string) inputVal {
	if cur == nil {
		panic("zzverif: no witness loaded (native run without VERIF_WITNESS)")
	}
	if pos >= len(cur.Inputs) {
		events = append(events, Event{Kind: "mismatch", Detail: "witness exhausted at " + kind + " " + tag})
		panic("zzverif: witness exhausted")
	}
	iv := cur.Inputs[pos]
	pos++
	if iv.Kind != kind {
		events = append(events, Event{Kind: "mismatch", Detail: fmt.Sprintf("witness entry %d is %s(%s), harness asked for %s(%s)", pos-1, iv.Kind, iv.Tag, kind, tag)})
		panic("zzverif: witness mismatch")
	}
	return iv
}

// Bool is an arbitrary boolean.
func Bool(tag string) bool { return next("bool", tag).B }

// Int is an arbitrary int in [lo,hi].
func Int(tag string, lo, hi int) int { return int(next("int", tag).I) }

// Choose is an arbitrary value in [0,n), case-split by the executor.
func Choose(tag string, n int) int { return int(next("choose", tag).I) }

// Str is an arbitrary byte string of length minLen..maxLen over alphabet
// ("" = all 256 byte values; "a-z_" style ranges).
func Str(tag string, minLen, maxLen int, alphabet string) string {
	iv := next("str", tag)
	b := make([]byte, len(iv.S))
	for i, x := range iv.S {
		b[i] = byte(x)
	}
	return string(b)
}

// Opaque is an arbitrary string of any length (regular-language queries only).
func Opaque(tag string) string { panic("zzverif.Opaque has no native replay") }

// Param is a bound chosen by the driver (tier), not an input.
func Param(name string, def int) int {
	if cur != nil {
		if v, ok := cur.Params[name]; ok {
			return v
		}
	}
	return def
}

// Assume states a precondition.
func Assume(c bool) {
	if !c {
		events = append(events, Event{Kind: "mismatch", Detail: "assumption false in native replay"})
		panic("zzverif: assumption false in native replay")
	}
}

// Assert states the property.
func Assert(c bool, label string) {
	if !c {
		events = append(events, Event{Kind: "assert-fail", Label: label, Class: classes[label]})
	}
}

// Class classifies a possible violation of label (known-findings matching).
func Class(label, class string) { classes[label] = class }

// Reach is a reachability witness.
func Reach(label string) { events = append(events, Event{Kind: "reach", Label: label}) }

// Observe records a digest; one digest per group and input across schedules.
func Observe(group, digest string) {
	events = append(events, Event{Kind: "observe", Label: group, Detail: digest})
}

// Budget states a bound on the work done up to BudgetEnd: at most `steps` SSA instructions on any path
// under the executor (deterministic count; the path ends as a violation of `label` when it is exceeded).
// Natively - where a flagged witness is confirmed - the same stretch may take at most nsPerStep
// nanoseconds per allowed step of wall-clock time (one SSA instruction is well under a nanosecond of
// native work, so this only trips on a blow-up, never on scheduling noise of a short computation).
func Budget(label string, steps int) {
	budgetLabel, budgetSteps, budgetStart = label, steps, time.Now()
	// a blow-up need not be run to completion: far beyond the allowance the process is stopped (the
	// replay driver records the crash for this witness and carries on with the next one)
	budgetDog = time.AfterFunc(time.Second+100*time.Duration(steps*nsPerStep), func() {
		panic("zzverif: work bound " + label + " exceeded a hundredfold, giving up")
	})
}

const nsPerStep = 20

// BudgetEnd ends the stretch; under the executor it returns the instructions used.
func BudgetEnd() int {
	if budgetLabel != "" && time.Since(budgetStart) > time.Duration(budgetSteps*nsPerStep) {
		events = append(events, Event{Kind: "assert-fail", Label: budgetLabel, Class: classes[budgetLabel]})
	}
	if budgetDog != nil {
		budgetDog.Stop()
	}
	budgetLabel = ""
	return 0
}

var (
	budgetLabel string
	budgetSteps int
	budgetStart time.Time
	budgetDog   *time.Timer
)

// Work runs f and returns the work it took: the number of SSA instructions executed under the executor
// (deterministic), nanoseconds of wall-clock time natively.
func Work(f func()) int {
	t0 := time.Now()
	f()
	return int(time.Since(t0).Nanoseconds()) + 1
}

// UlidOrder makes the order of the ids handed out by ulid.Make (ascending or descending) a schedule
// choice of the executor; natively ULIDs are what they are (random within a millisecond).
func UlidOrder() {}

// Freeze marks everything reachable from x as read-only from now on.  Natively
// the caller passes a snapshot comparison instead (FreezeNative).
func Freeze(label string, x any) {}

// FreezeNative registers a comparison that must still hold at the end of the
// native run (the native counterpart of Freeze; a no-op under the executor is
// achieved by guarding the call with !Symbolic()).
func FreezeNative(label string, unchanged func() bool) {
	frozen = append(frozen, frozenRec{label, unchanged})
}

// Stub records that a stub contract is in use (evidence).
func Stub(name string) {}

// Symbolic reports whether the harness runs under the executor.
func Symbolic() bool { return false }

// Equal is structural equality (formula under the executor, reflect.DeepEqual natively).
func Equal(a, b any) bool { return reflect.DeepEqual(a, b) }

// And, Or, Not, Implies build boolean terms without branching (the executor
// forks on Go's && and ||; these do not).
func And(a, b bool) bool     { return a && b }
func Or(a, b bool) bool      { return a || b }
func Not(a bool) bool        { return !a }
func Implies(a, b bool) bool { return !a || b }

// Skip ends a native replay that cannot be expressed natively (e.g. invalid
// UTF-8 in a YAML scalar); the executor ignores it.
func Skip(reason string) {
	events = append(events, Event{Kind: "skip", Detail: reason})
	panic(skipPanic{})
}

type skipPanic struct{}

// Log is ignored.
func Log(args ...any) {}

// ReplayDir replays every witness file *.json in VERIF_WITNESS_DIR against the
// natively compiled harnesses and writes <file>.out with the recorded events.
// VERIF_REPEAT repeats each replay (map iteration order differs per run) and
// records the union of the events.
func ReplayDir(harnesses map[string]func()) error {
	dir := os.Getenv("VERIF_WITNESS_DIR")
	if dir == "" {
		return nil
	}
	repeat := 1
	if r := os.Getenv("VERIF_REPEAT"); r != "" {
		fmt.Sscanf(r, "%d", &repeat)
	}
	entries, err := os.ReadDir(dir)
	if err != nil {
		return err
	}
	for _, e := range entries {
		name := e.Name()
		if !strings.HasSuffix(name, ".json") {
			continue
		}
		file := dir + "/" + name
		seen := map[Event]bool{}
		var all []Event
		for k := 0; k < repeat; k++ {
			if err := Load(file); err != nil {
				return err
			}
			fn := harnesses[cur.Harness]
			if fn == nil {
				all = append(all, Event{Kind: "mismatch", Detail: "no harness " + cur.Harness})
				break
			}
			RunNative(fn)
			for _, ev := range Finish() {
				if !seen[ev] {
					seen[ev] = true
					all = append(all, ev)
				}
			}
		}
		data, _ := json.MarshalIndent(all, "", " ")
		if err := os.WriteFile(file+".out", data, 0o644); err != nil {
			return err
		}
	}
	return nil
}

// Lang records, under the executor, the path condition and the result of a
// predicate over an Opaque string (engine B turns the set of paths into the
// regular language the predicate accepts).
func Lang(name string, result bool) {}

// MaxInt and IteInt are branch-free integer helpers for oracles.
func MaxInt(a, b int) int {
	if a > b {
		return a
	}
	return b
}

func IteInt(c bool, a, b int) int {
	if c {
		return a
	}
	return b
}

// ObserveGlobal is Observe with a group that is shared by all paths of the
// harness (not keyed by the input decisions): used to compare the results of
// different call histories for the same final call.
func ObserveGlobal(group, digest string) {
	events = append(events, Event{Kind: "observe", Label: "global:" + group, Detail: digest})
}

// Failed reports, natively, whether an assertion of this run has failed (a
// harness uses it to stop before handing a malformed value to code that cannot
// survive it); under the executor a failed concrete assertion ends the path.
func Failed() bool {
	for _, e := range events {
		if e.Kind == "assert-fail" {
			return true
		}
	}
	return false
}
