package graph

// Model family (DESIGN 5.2) and the whole-build harness shared by C04, C05,
// C06, C10, C11 (and the frozen-model monitor of C13).

import (
	"errors"
	"fmt"
	"sort"
	"strings"

	openfgav1 "github.com/openfga/api/proto/openfga/v1"
	"google.golang.org/protobuf/proto"

	"github.com/openfga/language/pkg/go/zzverif"
)

func fThis() *openfgav1.Userset {
	return &openfgav1.Userset{Userset: &openfgav1.Userset_This{This: &openfgav1.DirectUserset{}}}
}
func fComputed(r string) *openfgav1.Userset {
	return &openfgav1.Userset{Userset: &openfgav1.Userset_ComputedUserset{ComputedUserset: &openfgav1.ObjectRelation{Relation: r}}}
}
func fTTU(c, ts string) *openfgav1.Userset {
	return &openfgav1.Userset{Userset: &openfgav1.Userset_TupleToUserset{TupleToUserset: &openfgav1.TupleToUserset{
		ComputedUserset: &openfgav1.ObjectRelation{Relation: c}, Tupleset: &openfgav1.ObjectRelation{Relation: ts}}}}
}
func fOp(op int, a, b *openfgav1.Userset) *openfgav1.Userset {
	switch op {
	case 0:
		return &openfgav1.Userset{Userset: &openfgav1.Userset_Union{Union: &openfgav1.Usersets{Child: []*openfgav1.Userset{a, b}}}}
	case 1:
		return &openfgav1.Userset{Userset: &openfgav1.Userset_Intersection{Intersection: &openfgav1.Usersets{Child: []*openfgav1.Userset{a, b}}}}
	}
	return &openfgav1.Userset{Userset: &openfgav1.Userset_Difference{Difference: &openfgav1.Difference{Base: a, Subtract: b}}}
}
func fRef(t string) *openfgav1.RelationReference { return &openfgav1.RelationReference{Type: t} }
func fWild(t string) *openfgav1.RelationReference {
	return &openfgav1.RelationReference{Type: t, RelationOrWildcard: &openfgav1.RelationReference_Wildcard{Wildcard: &openfgav1.Wildcard{}}}
}
func fUserset(t, r string) *openfgav1.RelationReference {
	return &openfgav1.RelationReference{Type: t, RelationOrWildcard: &openfgav1.RelationReference_Relation{Relation: r}}
}

var fRelNames = []string{"a", "b", "c"}

// leaf forms of relation x (index i of n relations): text, rewrite, restrictions
type fLeaf struct {
	text  string
	u     *openfgav1.Userset
	restr []*openfgav1.RelationReference
}

func fCond(r *openfgav1.RelationReference) *openfgav1.RelationReference {
	r.Condition = "k"
	return r
}

const fFirstNonThis = 16 // index of the first leaf that is not a direct assignment
const fNumLeaves = 26

// fLeaves: the 22 leaf forms of relation x; y and z are the next relations (cyclically).
func fLeaves(i, n int) []fLeaf {
	x := fRelNames[i]
	y := fRelNames[(i+1)%n]
	z := fRelNames[(i+2)%n]
	R := func(rs ...*openfgav1.RelationReference) []*openfgav1.RelationReference { return rs }
	return []fLeaf{
		{"[user]", fThis(), R(fRef("user"))},
		{"[user, employee]", fThis(), R(fRef("user"), fRef("employee"))},
		{"[user:*]", fThis(), R(fWild("user"))},
		{"[employee:*]", fThis(), R(fWild("employee"))},
		{"[doc#" + y + "]", fThis(), R(fUserset("doc", y))},
		{"[doc#" + z + "]", fThis(), R(fUserset("doc", z))},
		{"[doc#" + x + "]", fThis(), R(fUserset("doc", x))},
		{"[user, doc#" + y + "]", fThis(), R(fRef("user"), fUserset("doc", y))},
		{"[doc#" + y + ", user]", fThis(), R(fUserset("doc", y), fRef("user"))},
		{"[doc#" + y + ", doc#" + z + "]", fThis(), R(fUserset("doc", y), fUserset("doc", z))},
		{"[doc#" + z + ", doc#" + y + ", user]", fThis(), R(fUserset("doc", z), fUserset("doc", y), fRef("user"))},
		{"[doc#" + y + ", user:*]", fThis(), R(fUserset("doc", y), fWild("user"))},
		{"[employee:*, doc#" + y + "]", fThis(), R(fWild("employee"), fUserset("doc", y))},
		{"[doc#" + y + " with k, user]", fThis(), R(fCond(fUserset("doc", y)), fRef("user"))},
		{"[user, user, user with k]", fThis(), R(fRef("user"), fRef("user"), fCond(fRef("user")))},
		{"[employee, user:* with k, user, user with k]", fThis(), R(fRef("employee"), fCond(fWild("user")), fRef("user"), fCond(fRef("user")))},
		{y, fComputed(y), nil},
		{z, fComputed(z), nil},
		{x, fComputed(x), nil},
		{y + " from p", fTTU(y, "p"), nil},
		{z + " from p", fTTU(z, "p"), nil},
		{x + " from p", fTTU(x, "p"), nil},
		// leaf 22 (a direct assignment after the non-this leaves: never admitted as second operand)
		{"[user:*, employee:*]", fThis(), R(fWild("user"), fWild("employee"))},
		// leaf 23: a direct assignment without any type restriction (JSON only): an operand that reaches nothing
		{"[]", fThis(), nil},
		// leaf 25 (see below, index 25): the same target twice, NOT next to each other
		// leaf 24: a condition that is named like the marker of "no condition"
		{"[user, user with none]", fThis(), R(fRef("user"), &openfgav1.RelationReference{Type: "user", Condition: NoCond})},
		{"[user, doc#" + y + ", user with k]", fThis(), R(fRef("user"), fUserset("doc", y), fCond(fRef("user")))},
	}
}

var fOpNames = []string{" or ", " and ", " but not "}

// fForm picks the rewrite of relation i.  L1<i> is the mask of leaves admitted
// as the sole rewrite / first operand, L2<i> the mask of (non-this) leaves
// admitted as second operand (0: no operators), OP<i> the mask of operators,
// REV<i>=1 adds the forms with the operands swapped (computed userset first,
// direct assignment second - only JSON models can say that).
func fForm(i, n int) (string, *openfgav1.Userset, []*openfgav1.RelationReference) {
	tag := fRelNames[i]
	leaves := fLeaves(i, n)
	l1mask := zzverif.Param(fmt.Sprintf("L1%d", i), (1<<fNumLeaves)-1)
	l2mask := zzverif.Param(fmt.Sprintf("L2%d", i), 0)
	opmask := zzverif.Param(fmt.Sprintf("OP%d", i), 7)
	rev := zzverif.Param(fmt.Sprintf("REV%d", i), 0) == 1
	seen := map[string]bool{}
	var menu, second []fLeaf
	for k, l := range leaves {
		if l1mask&(1<<k) != 0 && !seen[l.text] {
			seen[l.text] = true
			menu = append(menu, l)
		}
	}
	seen = map[string]bool{}
	for k, l := range leaves {
		if k >= fFirstNonThis && k < 22 && l2mask&(1<<k) != 0 && !seen[l.text] {
			seen[l.text] = true
			second = append(second, l)
		}
	}
	var ops []int
	for o := 0; o < 3; o++ {
		if opmask&(1<<o) != 0 {
			ops = append(ops, o)
		}
	}
	binary := len(menu) * len(second) * len(ops)
	forms := len(menu) + binary
	if rev {
		forms += binary
	}
	if zzverif.Param(fmt.Sprintf("NEST%d", i), 0) == 1 {
		// (A1 op1 A2) op (B1 op2 B2): two sibling groups under one operator
		small := []fLeaf{leaves[0], leaves[1], leaves[16], leaves[17]}
		pick := func(t string, first bool) fLeaf {
			if first {
				return small[zzverif.Choose(t, len(small))]
			}
			return small[2+zzverif.Choose(t, 2)]
		}
		op, op1, op2 := zzverif.Choose(tag+".op", 3), zzverif.Choose(tag+".op1", 3), zzverif.Choose(tag+".op2", 3)
		a1, a2, b1, b2 := pick(tag+".a1", true), pick(tag+".a2", false), pick(tag+".b1", false), pick(tag+".b2", false)
		text := "(" + a1.text + fOpNames[op1] + a2.text + ")" + fOpNames[op] + "(" + b1.text + fOpNames[op2] + b2.text + ")"
		return text, fOp(op, fOp(op1, a1.u, a2.u), fOp(op2, b1.u, b2.u)), a1.restr
	}
	if zzverif.Param(fmt.Sprintf("NEST%d", i), 0) == 3 {
		// ((A1 in A2) mid A3) top ((B1 in B2) mid B3): three levels, the two innermost operators are cousins of the same
		// kind at the same depth and position under different parents
		small := []fLeaf{leaves[16], leaves[17]}
		top, mid, in := zzverif.Choose(tag+".top", 3), zzverif.Choose(tag+".mid", 3), zzverif.Choose(tag+".in", 3)
		pick := func(t string) fLeaf { return small[zzverif.Choose(t, 2)] }
		a1, a2, a3, b1, b2, b3 := leaves[0], pick(tag+".a2"), pick(tag+".a3"), pick(tag+".b1"), pick(tag+".b2"), pick(tag+".b3")
		text := "((" + a1.text + fOpNames[in] + a2.text + ")" + fOpNames[mid] + a3.text + ")" + fOpNames[top] + "((" + b1.text + fOpNames[in] + b2.text + ")" + fOpNames[mid] + b3.text + ")"
		return text, fOp(top, fOp(mid, fOp(in, a1.u, a2.u), a3.u), fOp(mid, fOp(in, b1.u, b2.u), b3.u)), a1.restr
	}
	if zzverif.Param(fmt.Sprintf("NEST%d", i), 0) == 2 {
		// (A1 op1 A2) op B1: one nested group, small menus (used for several relations at once)
		first := []fLeaf{leaves[0], leaves[16]}
		rest := []fLeaf{leaves[16], leaves[17]}
		op, op1 := zzverif.Choose(tag+".op", 3), zzverif.Choose(tag+".op1", 3)
		a1, a2, b1 := first[zzverif.Choose(tag+".a1", 2)], rest[zzverif.Choose(tag+".a2", 2)], rest[zzverif.Choose(tag+".b1", 2)]
		text := "(" + a1.text + fOpNames[op1] + a2.text + ")" + fOpNames[op] + b1.text
		return text, fOp(op, fOp(op1, a1.u, a2.u), b1.u), a1.restr
	}
	// SINGLE<i>=1: also union(leaf), intersection(leaf), union(union(leaf)) and (leaf) op second with the first
	// operand wrapped in a one-child union - operators with a single operand, which only JSON models can say
	singles := 0
	if zzverif.Param(fmt.Sprintf("SINGLE%d", i), 0) == 1 {
		singles = len(menu) * 3
		if len(second) > 0 {
			singles += len(menu) * len(ops)
		}
	}
	// DUPTHIS<i>=1: also `leaf op leaf` for the direct-assignment leaves: the direct assignment written twice under one
	// operator (both occurrences share the relation's restrictions; JSON only)
	var thisMenu []fLeaf
	if zzverif.Param(fmt.Sprintf("DUPTHIS%d", i), 0) == 1 {
		for _, l := range menu {
			if l.u.GetThis() != nil {
				thisMenu = append(thisMenu, l)
			}
		}
	}
	dups := len(thisMenu) * len(ops)
	c := zzverif.Choose(tag, forms+singles+dups)
	if c >= forms+singles {
		c -= forms + singles
		l := thisMenu[c/len(ops)]
		op := ops[c%len(ops)]
		return l.text + fOpNames[op] + l.text, fOp(op, fThis(), fThis()), l.restr
	}
	if c >= forms {
		c -= forms
		one := func(op int, u *openfgav1.Userset) *openfgav1.Userset {
			if op == 1 {
				return &openfgav1.Userset{Userset: &openfgav1.Userset_Intersection{Intersection: &openfgav1.Usersets{Child: []*openfgav1.Userset{u}}}}
			}
			return &openfgav1.Userset{Userset: &openfgav1.Userset_Union{Union: &openfgav1.Usersets{Child: []*openfgav1.Userset{u}}}}
		}
		if c < len(menu)*3 {
			l := menu[c/3]
			switch c % 3 {
			case 0:
				return "union(" + l.text + ")", one(0, l.u), l.restr
			case 1:
				return "intersection(" + l.text + ")", one(1, l.u), l.restr
			}
			return "union(union(" + l.text + "))", one(0, one(0, l.u)), l.restr
		}
		c -= len(menu) * 3
		l := menu[c/len(ops)]
		op := ops[c%len(ops)]
		return "union(" + l.text + ")" + fOpNames[op] + second[0].text, fOp(op, one(0, l.u), second[0].u), l.restr
	}
	if c < len(menu) {
		l := menu[c]
		return l.text, l.u, l.restr
	}
	c -= len(menu)
	swapped := false
	if c >= binary {
		c -= binary
		swapped = true
	}
	op := ops[c%len(ops)]
	c /= len(ops)
	l2 := second[c%len(second)]
	l1 := menu[c/len(second)]
	if swapped {
		return l2.text + fOpNames[op] + l1.text, fOp(op, l2.u, l1.u), l1.restr
	}
	return l1.text + fOpNames[op] + l2.text, fOp(op, l1.u, l2.u), l1.restr
}

// fFamilyModel: type doc with relations a[,b[,c]] and the tupleset p.
func fFamilyModel() (*openfgav1.AuthorizationModel, string) {
	// RELNAMES=1: relation names that are prefixes of each other (and of the tupleset-free part of
	// `doc#...` labels): code that matches labels by prefix instead of exactly confuses them
	if zzverif.Param("RELNAMES", 0) == 1 {
		fRelNames = []string{"v", "vi", "vie"}
	} else {
		fRelNames = []string{"a", "b", "c"}
	}
	n := zzverif.Param("R", 2)
	parents := zzverif.Param("PARENTS", 1) // 1: p: [doc]; 2: p: [doc, org]; 3: p: [doc, doc with k, org]
	td := &openfgav1.TypeDefinition{Type: "doc", Relations: map[string]*openfgav1.Userset{}, Metadata: &openfgav1.Metadata{Relations: map[string]*openfgav1.RelationMetadata{}}}
	var text []string
	for i := 0; i < n; i++ {
		t, u, restr := fForm(i, n)
		td.Relations[fRelNames[i]] = u
		td.Metadata.Relations[fRelNames[i]] = &openfgav1.RelationMetadata{DirectlyRelatedUserTypes: restr}
		text = append(text, fRelNames[i]+": "+t)
	}
	// tupleset parents: 1 [doc]; 2 [doc, org]; 3 [doc, doc with k, org]; 4 [org, org with k, doc];
	// 5 [doc, doc with k, bare] where type bare defines no relation; 6 [bare, doc]
	pr := []*openfgav1.RelationReference{fRef("doc")}
	tds := []*openfgav1.TypeDefinition{{Type: "user"}, {Type: "employee"}, td}
	if parents >= 2 {
		switch parents {
		case 2:
			pr = append(pr, fRef("org"))
		case 3:
			pr = append(pr, fCond(fRef("doc")), fRef("org"))
		case 4:
			pr = []*openfgav1.RelationReference{fRef("org"), fCond(fRef("org")), fRef("doc")}
		case 5:
			pr = append(pr, fCond(fRef("doc")), fRef("bare"))
			tds = append(tds, &openfgav1.TypeDefinition{Type: "bare"})
		case 8:
			// the own type twice with another parent type in between
			pr = []*openfgav1.RelationReference{fRef("doc"), fRef("org"), fCond(fRef("doc"))}
		case 6:
			// a parent type without any relation listed in front of the own type
			pr = []*openfgav1.RelationReference{fRef("bare"), fRef("doc")}
			tds = append(tds, &openfgav1.TypeDefinition{Type: "bare"})
		}
		if parents != 5 && parents != 6 && parents != 7 {
			org := &openfgav1.TypeDefinition{Type: "org", Relations: map[string]*openfgav1.Userset{}, Metadata: &openfgav1.Metadata{Relations: map[string]*openfgav1.RelationMetadata{}}}
			for i := 0; i < n; i++ {
				org.Relations[fRelNames[i]] = fThis()
				org.Metadata.Relations[fRelNames[i]] = &openfgav1.RelationMetadata{DirectlyRelatedUserTypes: []*openfgav1.RelationReference{fRef("employee")}}
			}
			tds = append(tds, org)
		}
		text = append(text, fmt.Sprintf("p: parents variant %d", parents))
	}
	td.Relations["p"] = fThis()
	td.Metadata.Relations["p"] = &openfgav1.RelationMetadata{DirectlyRelatedUserTypes: pr}
	if parents == 7 {
		// the tupleset is no direct assignment at all (`define p: a`): its list of type restrictions is EMPTY BUT NOT NIL,
		// which is what the DSL transformer produces for such a relation - a tuple-to-userset over it is invalid
		td.Relations["p"] = fComputed(fRelNames[0])
		td.Metadata.Relations["p"] = &openfgav1.RelationMetadata{DirectlyRelatedUserTypes: []*openfgav1.RelationReference{}}
	}
	return &openfgav1.AuthorizationModel{SchemaVersion: "1.1", TypeDefinitions: tds}, strings.Join(text, " / ")
}

// ---- comparison of the real graph with the spec graph

type cmpCtx struct {
	cls  string // class of the model (known-findings matching)
	wg   *WeightedAuthorizationModelGraph
	g    *sGraph
	K    map[*sNode]keySet
	W    map[*sNode]map[string]int
	mode int
	// matching of operator nodes
	real map[*sNode]*WeightedAuthorizationModelNode
}

func sameWeights(a, b map[string]int) bool {
	if len(a) != len(b) {
		return false
	}
	for k, v := range a {
		if w, ok := b[k]; !ok || w != v {
			return false
		}
	}
	return true
}

func sameSet(a, b []string) bool {
	x := append([]string{}, a...)
	y := append([]string{}, b...)
	sort.Strings(x)
	sort.Strings(y)
	if len(x) != len(y) {
		return false
	}
	for i := range x {
		if x[i] != y[i] {
			return false
		}
	}
	return true
}

func hasDup(a []string) bool {
	seen := map[string]bool{}
	for _, x := range a {
		if seen[x] {
			return true
		}
		seen[x] = true
	}
	return false
}

func nodeTypeOf(kind int) NodeType {
	switch kind {
	case sType:
		return SpecificType
	case sRel:
		return SpecificTypeAndRelation
	case sOp:
		return OperatorNode
	}
	return SpecificTypeWildcard
}

// compareNode checks node sn (matched to rn) and, recursively, operator nodes below it.
func (c *cmpCtx) compareNode(sn *sNode, rn *WeightedAuthorizationModelNode) {
	c.real[sn] = rn
	edges := c.wg.edges[rn.uniqueLabel]
	if c.mode == 10 || c.mode == 0 {
		zzverif.Assert(rn.nodeType == nodeTypeOf(sn.kind), "node-kind")
		if sn.kind == sOp {
			zzverif.Assert(rn.label == sn.op, "operator-label")
		} else {
			zzverif.Assert(rn.label == sn.label && rn.uniqueLabel == sn.label, "node-label")
		}
		zzverif.Assert(len(edges) == len(sn.out), "edges-one-to-one-with-rewrite")
	}
	if len(edges) != len(sn.out) {
		return
	}
	for i, se := range sn.out {
		re := edges[i]
		if c.mode == 10 || c.mode == 0 {
			zzverif.Assert(re.edgeType == se.kind, "edge-kind-in-source-order")
			zzverif.Assert(re.tuplesetRelation == se.tupleset, "ttu-edge-labelled-type#tupleset")
			// (the class is that of THIS edge: a direct edge one of whose restrictions names a condition "none")
			condClass := c.cls
			if se.kind == DirectEdge {
				for _, cn := range se.conds {
					if cn == NoCond {
						condClass = "condition named like the unconditioned marker"
					}
				}
			}
			zzverif.Class("edge-conditions-ordered-set", condClass)
			zzverif.Assert(strings.Join(re.conditions, ",") == strings.ReplaceAll(strings.Join(se.conds, ","), "\x00", ""), "edge-conditions-ordered-set")
			zzverif.Assert(re.from == rn, "edge-from")
			if se.to.kind != sOp {
				zzverif.Assert(re.to != nil && re.to.uniqueLabel == se.to.label, "edge-target")
			} else {
				zzverif.Assert(re.to != nil && re.to.nodeType == OperatorNode, "edge-target")
			}
		}
		if re.to == nil {
			continue
		}
		if c.mode == 4 || c.mode == 0 {
			want := c.g.edgeWeights(se, c.K, c.W)
			if !sameWeights(re.weights, want) {
				zzverif.Log("edge", se.from.label, "->", se.to.label, fmtWeights(re.weights), "want", fmtWeights(want))
			}
			zzverif.Assert(sameWeights(re.weights, want), "edge-weight-is-target-plus-hop")
		}
		if c.mode == 11 || c.mode == 0 {
			want := c.g.wildcards(se.to)
			zzverif.Assert(!hasDup(re.wildcards), "edge-wildcards-no-duplicates")
			zzverif.Assert(sameSet(re.wildcards, want), "edge-wildcards-are-target's")
		}
		if se.to.kind == sOp {
			c.compareNode(se.to, re.to)
		}
	}
	if sn.kind == sRel || sn.kind == sOp {
		if c.mode == 4 || c.mode == 0 {
			want := c.W[sn]
			zzverif.Assert(len(rn.weights) > 0, "no-empty-weight-map")
			for k := range rn.weights {
				zzverif.Assert(!strings.HasPrefix(k, "R#"), "no-cycle-placeholder-visible")
			}
			zzverif.Assert(sameWeights(rn.weights, want), "node-weight-is-max-hop-depth-per-reachable-type")
		}
		if c.mode == 11 || c.mode == 0 {
			want := c.g.wildcards(sn)
			zzverif.Assert(!hasDup(rn.wildcards), "node-wildcards-no-duplicates")
			zzverif.Assert(sameSet(rn.wildcards, want), "node-wildcards-are-reachable-public-types")
		}
	}
}

func graphDigest(wg *WeightedAuthorizationModelGraph) string {
	// canonical: relation nodes by label; operator nodes positionally below them
	var sb strings.Builder
	var walk func(n *WeightedAuthorizationModelNode, depth int)
	walk = func(n *WeightedAuthorizationModelNode, depth int) {
		ws := append([]string{}, n.wildcards...)
		sort.Strings(ws)
		sb.WriteString(fmtWeights(n.weights) + "w" + strings.Join(ws, "+"))
		for _, e := range wg.edges[n.uniqueLabel] {
			es := append([]string{}, e.wildcards...)
			sort.Strings(es)
			sb.WriteString("(" + fmt.Sprint(int(e.edgeType)) + fmtWeights(e.weights) + "w" + strings.Join(es, "+"))
			if e.to != nil && e.to.nodeType == OperatorNode && depth < 8 {
				sb.WriteString(e.to.label + ":")
				walk(e.to, depth+1)
			} else if e.to != nil {
				sb.WriteString(e.to.uniqueLabel)
			}
			sb.WriteString(")")
		}
	}
	for _, l := range sortedKeys(wg.nodes) {
		n := wg.nodes[l]
		if n.nodeType == OperatorNode {
			continue
		}
		sb.WriteString(l + "=")
		walk(n, 0)
		sb.WriteString(";")
	}
	return sb.String()
}

// verifBuildAndCompare: MODE selects the property whose assertions are active
// (0 all, 4 weights, 5 verdict, 6 determinism only, 10 structure, 11 wildcards).
func verifBuildAndCompare(m *openfgav1.AuthorizationModel, key string) {
	mode := zzverif.Param("MODE", 0)
	zzverif.Freeze("model", m)
	if !zzverif.Symbolic() {
		snap := proto.Clone(m)
		zzverif.FreezeNative("model", func() bool { return proto.Equal(snap, m) })
	}
	g := specGraph(m)
	K := g.keySets()
	verdict := g.specVerdict(K)
	wg, err := (&WeightedAuthorizationModelGraphBuilder{}).Build(m)
	if key != "public-types" { // (symbolic names: no concrete digest)
		if err != nil {
			zzverif.Observe(key, "rejected")
		} else {
			zzverif.Observe(key, "accepted "+graphDigest(wg))
		}
	}
	if mode == 6 {
		return
	}
	multi := g.invalid == "" && g.hasMultiEdgeOperand()
	cls := "other"
	switch {
	case g.invalid == "" && g.hasEmptyOperand():
		cls = "intersection/exclusion operand without any edge"
	case multi:
		cls = "intersection/exclusion operand made of several edges"
	case verdict == "rewrite-only cycle":
		cls = "rewrite-only cycle"
	case verdict == "no terminal type reachable":
		cls = "relation without terminal type"
	case verdict == "intersection without common type":
		cls = "intersection without common type"
	}
	if mode == 5 || mode == 0 {
		zzverif.Class("accepted-iff-well-founded", cls)
		zzverif.Assert((err == nil) == (verdict == ""), "accepted-iff-well-founded")
		if err != nil {
			zzverif.Reach("rejected")
			zzverif.Assert(errors.Is(err, ErrModelCycle) || errors.Is(err, ErrTupleCycle) || errors.Is(err, ErrInvalidModel), "error-wraps-a-sentinel")
			zzverif.Assert(wg == nil, "rejected-returns-no-graph")
		}
	}
	if err != nil || verdict != "" {
		return
	}
	zzverif.Reach("accepted")
	for _, l := range []string{"edge-weight-is-target-plus-hop", "node-weight-is-max-hop-depth-per-reachable-type", "no-empty-weight-map", "no-cycle-placeholder-visible",
		"node-wildcards-are-reachable-public-types", "edge-wildcards-are-target's", "edges-one-to-one-with-rewrite"} {
		zzverif.Class(l, cls)
	}
	c := &cmpCtx{wg: wg, g: g, K: K, mode: mode, cls: cls, real: map[*sNode]*WeightedAuthorizationModelNode{}}
	if mode == 4 || mode == 0 {
		c.W = g.weights(K)
	}
	nops := 0
	for _, n := range wg.nodes {
		if n.nodeType == OperatorNode {
			nops++
		}
	}
	if mode == 10 || mode == 0 {
		zzverif.Assert(len(wg.nodes) == len(g.order), "one-node-per-type-relation-userset-wildcard-operator")
		zzverif.Assert(nops == g.nops, "one-operator-node-per-occurrence")
	}
	for _, sn := range g.order {
		if sn.kind == sOp {
			continue
		}
		rn := wg.nodes[sn.label]
		if mode == 10 || mode == 0 {
			zzverif.Assert(rn != nil, "node-exists")
		}
		if rn == nil {
			continue
		}
		c.compareNode(sn, rn)
	}
}

func VerifGraph_Family() {
	m, key := fFamilyModel()
	verifBuildAndCompare(m, key)
}

// VerifC11_PublicTypes: three or four public (wildcard) types whose names are
// symbolic and pairwise different - the solver chooses their lexical order -
// reached through a union, so that wildcard lists are adopted by aliasing and
// extended afterwards.
func VerifC11_PublicTypes() {
	n := 3 + zzverif.Choose("types", 2)
	var ts []string
	for i := 0; i < n; i++ {
		t := zzverif.Str("type", 1, 1, "a-e")
		for _, o := range ts {
			zzverif.Assume(t != o)
		}
		ts = append(ts, "t"+t)
	}
	wild := func(t string) *openfgav1.RelationMetadata {
		return &openfgav1.RelationMetadata{DirectlyRelatedUserTypes: []*openfgav1.RelationReference{fWild(t)}}
	}
	var td *openfgav1.TypeDefinition
	shape := zzverif.Choose("shape", 3)
	if shape == 2 {
		// a relation with k public types (k = 1..5: the list's spare capacity depends on k) used by two
		// relations that each add a public type of their own, directly or through a union
		k := 1 + zzverif.Choose("public-types-of-n", 5)
		var many []*openfgav1.RelationReference
		for _, t := range []string{"ua", "ub", "uc", "ud", "ue"}[:k] {
			many = append(many, fWild(t))
		}
		if zzverif.Choose("through", 2) == 0 {
			td = &openfgav1.TypeDefinition{Type: "doc", Relations: map[string]*openfgav1.Userset{"n": fThis(), "p1": fThis(), "p2": fThis()},
				Metadata: &openfgav1.Metadata{Relations: map[string]*openfgav1.RelationMetadata{
					"n":  {DirectlyRelatedUserTypes: many},
					"p1": {DirectlyRelatedUserTypes: []*openfgav1.RelationReference{fUserset("doc", "n"), fWild("ux")}},
					"p2": {DirectlyRelatedUserTypes: []*openfgav1.RelationReference{fUserset("doc", "n"), fWild("uy")}}}}}
		} else {
			td = &openfgav1.TypeDefinition{Type: "doc", Relations: map[string]*openfgav1.Userset{"n": fThis(), "q1": fThis(), "q2": fThis(),
				"p1": fOp(0, fComputed("n"), fComputed("q1")), "p2": fOp(0, fComputed("n"), fComputed("q2"))},
				Metadata: &openfgav1.Metadata{Relations: map[string]*openfgav1.RelationMetadata{
					"n": {DirectlyRelatedUserTypes: many}, "q1": wild("ux"), "q2": wild("uy")}}}
		}
	} else if shape == 0 {
		var first []*openfgav1.RelationReference
		for _, t := range ts[:n-1] {
			first = append(first, fWild(t))
		}
		td = &openfgav1.TypeDefinition{Type: "doc", Relations: map[string]*openfgav1.Userset{
			"v": fThis(), "s": fThis(), "u": fOp(0, fComputed("v"), fComputed("s")), "w": fOp(0, fComputed("s"), fComputed("v"))},
			Metadata: &openfgav1.Metadata{Relations: map[string]*openfgav1.RelationMetadata{
				"v": {DirectlyRelatedUserTypes: first}, "s": wild(ts[n-1])}}}
	} else {
		// the same public type reached along two paths (de-duplicating merge), the
		// resulting list adopted by two parents that each add another public type
		td = &openfgav1.TypeDefinition{Type: "doc", Relations: map[string]*openfgav1.Userset{
			"m": fThis(), "n": fOp(0, fThis(), fComputed("m")), "q1": fThis(), "q2": fThis(),
			"p1": fOp(0, fComputed("n"), fComputed("q1")), "p2": fOp(0, fComputed("n"), fComputed("q2")),
			"r": fOp(0, fComputed("p1"), fComputed("p2"))},
			Metadata: &openfgav1.Metadata{Relations: map[string]*openfgav1.RelationMetadata{
				"m": wild(ts[0]), "n": wild(ts[0]), "q1": wild(ts[1]), "q2": wild(ts[2])}}}
	}
	m := &openfgav1.AuthorizationModel{SchemaVersion: "1.1", TypeDefinitions: []*openfgav1.TypeDefinition{td}}
	verifBuildAndCompare(m, "public-types")
}

// relationWeights: the weights of the relation nodes only (by label).
func relationWeights(wg *WeightedAuthorizationModelGraph) string {
	var sb strings.Builder
	for _, l := range sortedKeys(wg.nodes) {
		n := wg.nodes[l]
		if n.nodeType == SpecificTypeAndRelation {
			sb.WriteString(l + "=" + fmtWeights(n.weights) + ";")
		}
	}
	return sb.String()
}

func swapOperands(u *openfgav1.Userset) *openfgav1.Userset {
	switch x := u.GetUserset().(type) {
	case *openfgav1.Userset_Union:
		cs := x.Union.GetChild()
		if len(cs) == 2 {
			return fOp(0, cs[1], cs[0])
		}
	case *openfgav1.Userset_Intersection:
		cs := x.Intersection.GetChild()
		if len(cs) == 2 {
			return fOp(1, cs[1], cs[0])
		}
	}
	return nil
}

// VerifC06_OperandOrder: metamorphic twin - swapping the two operands of a union
// or intersection, and reversing the list of type definitions, changes neither
// the verdict nor any relation's weights.
func VerifC06_OperandOrder() {
	m, _ := fFamilyModel()
	var doc *openfgav1.TypeDefinition
	for _, td := range m.GetTypeDefinitions() {
		if td.GetType() == "doc" {
			doc = td
		}
	}
	sw := swapOperands(doc.GetRelations()["a"])
	if sw == nil {
		return
	}
	g := specGraph(m)
	if g.invalid == "" && g.hasMultiEdgeOperand() {
		zzverif.Class("operand-order-does-not-change-the-verdict", "intersection/exclusion operand made of several edges")
		zzverif.Class("operand-order-does-not-change-relation-weights", "intersection/exclusion operand made of several edges")
	}
	twin := &openfgav1.TypeDefinition{Type: "doc", Relations: map[string]*openfgav1.Userset{}, Metadata: doc.GetMetadata()}
	for k, v := range doc.GetRelations() {
		twin.Relations[k] = v
	}
	twin.Relations["a"] = sw
	var tds []*openfgav1.TypeDefinition
	for i := len(m.GetTypeDefinitions()) - 1; i >= 0; i-- { // reversed type definition order as well
		td := m.GetTypeDefinitions()[i]
		if td == doc {
			td = twin
		}
		tds = append(tds, td)
	}
	m2 := &openfgav1.AuthorizationModel{SchemaVersion: "1.1", TypeDefinitions: tds}
	w1, e1 := (&WeightedAuthorizationModelGraphBuilder{}).Build(m)
	w2, e2 := (&WeightedAuthorizationModelGraphBuilder{}).Build(m2)
	zzverif.Assert((e1 == nil) == (e2 == nil), "operand-order-does-not-change-the-verdict")
	if e1 == nil && e2 == nil {
		zzverif.Reach("accepted")
		zzverif.Assert(relationWeights(w1) == relationWeights(w2), "operand-order-does-not-change-relation-weights")
	}
}

// VerifC13_GraphHistory: the result of building a model does not depend on which
// models were built before (same model id, different content).
func VerifC13_GraphHistory() {
	mk := func(withC bool) *openfgav1.AuthorizationModel {
		td := &openfgav1.TypeDefinition{Type: "doc", Relations: map[string]*openfgav1.Userset{"p": fThis(), "a": fThis()},
			Metadata: &openfgav1.Metadata{Relations: map[string]*openfgav1.RelationMetadata{
				"p": {DirectlyRelatedUserTypes: []*openfgav1.RelationReference{fRef("doc")}},
				"a": {DirectlyRelatedUserTypes: []*openfgav1.RelationReference{fRef("user")}}}}}
		if withC {
			td.Relations["c"] = fThis()
			td.Metadata.Relations["c"] = &openfgav1.RelationMetadata{DirectlyRelatedUserTypes: []*openfgav1.RelationReference{fRef("user")}}
			td.Relations["b"] = fTTU("c", "p")
		} else {
			td.Relations["b"] = fTTU("a", "p")
		}
		return &openfgav1.AuthorizationModel{Id: "01HVERIFSAMEID0000000000000", SchemaVersion: "1.1", TypeDefinitions: []*openfgav1.TypeDefinition{{Type: "user"}, td}}
	}
	v1, v2 := mk(false), mk(true)
	last := NewWeightedAuthorizationModelGraphBuilder()
	switch zzverif.Choose("history", 5) {
	case 1:
		(&WeightedAuthorizationModelGraphBuilder{}).Build(v1)
	case 2:
		(&WeightedAuthorizationModelGraphBuilder{}).Build(v1)
		(&WeightedAuthorizationModelGraphBuilder{}).Build(v2)
	case 3:
		// ONE builder instance used for several models: what it saw first must not leak into the next build
		last.Build(v1)
	case 4:
		last.Build(v2)
		last.Build(v1)
	}
	wg, err := last.Build(v2)
	if err != nil {
		zzverif.ObserveGlobal("build(v2)", "rejected")
	} else {
		zzverif.ObserveGlobal("build(v2)", "accepted "+graphDigest(wg))
	}
	zzverif.Reach("built")
}

// VerifC08_GraphDegenerate: structurally valid protobuf models with missing
// optional parts through the weighted graph builder: nil type definitions, nil
// or unset rewrites, operators without operands or with nil operands, nil
// difference parts, nil tuple-to-userset parts, nil metadata and nil
// restrictions.  Monitor: no panic (every path returns a graph or an error).
func VerifC08_GraphDegenerate() {
	var gen func(depth int) *openfgav1.Userset
	gen = func(depth int) *openfgav1.Userset {
		kinds := 8
		if depth == 0 {
			kinds = 6
		}
		switch zzverif.Choose("kind", kinds) {
		case 0:
			return nil
		case 1:
			return &openfgav1.Userset{}
		case 2:
			return fThis()
		case 3:
			return &openfgav1.Userset{Userset: &openfgav1.Userset_ComputedUserset{}}
		case 4:
			switch zzverif.Choose("ttu", 3) {
			case 0:
				return &openfgav1.Userset{Userset: &openfgav1.Userset_TupleToUserset{}}
			case 1:
				return &openfgav1.Userset{Userset: &openfgav1.Userset_TupleToUserset{TupleToUserset: &openfgav1.TupleToUserset{Tupleset: &openfgav1.ObjectRelation{Relation: "p"}}}}
			}
			return fTTU("a", "p")
		case 5:
			return fComputed("a")
		case 6:
			op := zzverif.Choose("op", 3)
			switch zzverif.Choose("operands", 4) {
			case 0:
				switch op {
				case 0:
					return &openfgav1.Userset{Userset: &openfgav1.Userset_Union{}}
				case 1:
					return &openfgav1.Userset{Userset: &openfgav1.Userset_Intersection{Intersection: &openfgav1.Usersets{}}}
				}
				return &openfgav1.Userset{Userset: &openfgav1.Userset_Difference{}}
			case 1:
				return fOp(op, nil, fComputed("a"))
			case 2:
				return fOp(op, fThis(), nil)
			}
			return fOp(op, gen(depth-1), gen(depth-1))
		}
		return fOp(zzverif.Choose("op", 3), fThis(), gen(depth-1))
	}
	td := &openfgav1.TypeDefinition{Type: "doc", Relations: map[string]*openfgav1.Userset{"a": fThis(), "p": fThis(), "x": gen(zzverif.Param("DEPTH", 1))}}
	switch zzverif.Choose("metadata", 5) {
	case 1:
		td.Metadata = &openfgav1.Metadata{}
	case 2:
		td.Metadata = &openfgav1.Metadata{Relations: map[string]*openfgav1.RelationMetadata{"a": nil, "p": nil, "x": nil}}
	case 3:
		td.Metadata = &openfgav1.Metadata{Relations: map[string]*openfgav1.RelationMetadata{
			"a": {DirectlyRelatedUserTypes: []*openfgav1.RelationReference{nil, fRef("user")}},
			"p": {DirectlyRelatedUserTypes: []*openfgav1.RelationReference{nil, fRef("doc")}},
			"x": {DirectlyRelatedUserTypes: []*openfgav1.RelationReference{{}, {Type: "user", RelationOrWildcard: &openfgav1.RelationReference_Wildcard{}}}}}}
	case 4:
		td.Metadata = &openfgav1.Metadata{Relations: map[string]*openfgav1.RelationMetadata{
			"a": {DirectlyRelatedUserTypes: []*openfgav1.RelationReference{fRef("user")}},
			"p": {DirectlyRelatedUserTypes: []*openfgav1.RelationReference{fRef("doc"), fRef("ghost")}},
			"x": {DirectlyRelatedUserTypes: []*openfgav1.RelationReference{fUserset("ghost", "r"), fWild("")}}}}
	}
	tds := []*openfgav1.TypeDefinition{td}
	if zzverif.Choose("nil-typedef", 2) == 1 {
		tds = append(tds, nil)
	}
	var m *openfgav1.AuthorizationModel
	if zzverif.Choose("nil-model", 8) != 7 {
		m = &openfgav1.AuthorizationModel{SchemaVersion: "1.1", TypeDefinitions: tds}
	}
	zzverif.Freeze("model", m)
	wg, err := (&WeightedAuthorizationModelGraphBuilder{}).Build(m)
	if err == nil {
		zzverif.Reach("accepted")
		zzverif.Assert(wg != nil, "result-or-error")
	} else {
		zzverif.Reach("rejected")
	}
}

// VerifC08_PlainGraphDegenerate: the plain (gonum-backed) graph builder on the
// same degenerate models - panic monitor only (C17's claims about the graph
// itself stay not applicable).
func VerifC08_PlainGraphDegenerate() {
	restr := [][]*openfgav1.RelationReference{
		{fRef("user")},
		{{Type: "user", RelationOrWildcard: &openfgav1.RelationReference_Relation{Relation: ""}}},
		{nil, fRef("user")},
		{{Type: "", RelationOrWildcard: &openfgav1.RelationReference_Wildcard{}}},
		{fUserset("ghost", "r"), fWild("user")},
	}[zzverif.Choose("restrictions", 5)]
	var x *openfgav1.Userset
	switch zzverif.Choose("rewrite", 8) {
	case 0:
		x = nil
	case 1:
		x = &openfgav1.Userset{}
	case 2:
		x = fThis()
	case 3:
		x = &openfgav1.Userset{Userset: &openfgav1.Userset_TupleToUserset{}}
	case 4:
		x = fOp(zzverif.Choose("op", 3), nil, fThis())
	case 5:
		x = &openfgav1.Userset{Userset: &openfgav1.Userset_Difference{}}
	case 6:
		x = fTTU("a", "ghost")
	case 7:
		x = fOp(zzverif.Choose("op", 3), fThis(), fTTU("a", "p"))
	}
	td := &openfgav1.TypeDefinition{Type: "doc", Relations: map[string]*openfgav1.Userset{"a": fThis(), "p": fThis(), "x": x}}
	if zzverif.Choose("metadata", 3) > 0 {
		td.Metadata = &openfgav1.Metadata{Relations: map[string]*openfgav1.RelationMetadata{
			"a": {DirectlyRelatedUserTypes: restr}, "p": {DirectlyRelatedUserTypes: []*openfgav1.RelationReference{fRef("doc")}}, "x": {DirectlyRelatedUserTypes: restr}}}
		if zzverif.Choose("nil-relation-metadata", 2) == 1 {
			td.Metadata.Relations["x"] = nil
		}
	}
	m := &openfgav1.AuthorizationModel{SchemaVersion: "1.1", TypeDefinitions: []*openfgav1.TypeDefinition{{Type: "user"}, td}}
	g, err := NewAuthorizationModelGraph(m)
	if err == nil {
		zzverif.Reach("accepted")
		zzverif.Assert(g != nil, "result-or-error")
		if g != nil {
			// the other entry points of the plain graph on what the degenerate model produced
			_ = g.GetDOT()
			_ = g.GetCycles()
			_, _ = g.PathExists("user", "doc#x")
			_, _ = g.GetNodeByLabel("doc#x")
			if r, err := g.Reversed(); err == nil {
				_ = r.GetDOT()
				_, _ = r.PathExists("doc#x", "user")
			}
		}
	} else {
		zzverif.Reach("rejected")
	}
}

// VerifC06_Names: relation and type names that are close to each other (differing in case only,
// prefixes of each other): one verdict and one digest per model over every explored iteration order
// of the builder's maps.
func VerifC06_Names() {
	menu := []string{"a", "A", "b", "ab", "B", "a_b", "aB"}
	i := zzverif.Choose("first", len(menu))
	j := zzverif.Choose("second", len(menu))
	k := zzverif.Choose("third", len(menu))
	if i >= j || j >= k {
		zzverif.Skip("names in menu order only (the model is a set of relations)")
		return
	}
	n1, n2, n3 := menu[i], menu[j], menu[k]
	types := [][2]string{{"user", "User"}, {"user", "employee"}, {"user", "user_"}}[zzverif.Choose("types", 3)]
	td := &openfgav1.TypeDefinition{Type: "doc", Relations: map[string]*openfgav1.Userset{
		n1: fThis(), n2: fOp(0, fThis(), fTTU(n2, "p")), n3: fOp(zzverif.Choose("op", 3), fThis(), fComputed(n2)), "p": fThis()},
		Metadata: &openfgav1.Metadata{Relations: map[string]*openfgav1.RelationMetadata{
			n1:  {DirectlyRelatedUserTypes: []*openfgav1.RelationReference{fRef(types[0]), fWild(types[1])}},
			n2:  {DirectlyRelatedUserTypes: []*openfgav1.RelationReference{fRef(types[1]), fUserset("doc", n1)}},
			n3:  {DirectlyRelatedUserTypes: []*openfgav1.RelationReference{fRef(types[0]), fRef(types[1]), fUserset("doc", n1)}},
			"p": {DirectlyRelatedUserTypes: []*openfgav1.RelationReference{fRef("doc")}}}}}
	m := &openfgav1.AuthorizationModel{SchemaVersion: "1.1", TypeDefinitions: []*openfgav1.TypeDefinition{{Type: types[0]}, {Type: types[1]}, td}}
	key := n1 + "," + n2 + "," + n3 + " " + types[0] + "," + types[1]
	wg, err := NewWeightedAuthorizationModelGraphBuilder().Build(m)
	if err != nil {
		zzverif.Observe(key, "rejected")
		zzverif.Reach("rejected")
		return
	}
	zzverif.Observe(key, "accepted "+graphDigest(wg))
	zzverif.Reach("accepted")
}
