package graph

// C08, work clause: "the work it performs is bounded by a quadratic function of the input length".
// Families of models whose size grows with a depth d and in which the number of *paths* through the
// rewrites grows exponentially with d while the number of nodes and edges grows linearly: any
// traversal that forgets what it has finished (no memo, no visited set) explodes on them.  The work
// is measured as SSA instructions executed by the symbolic executor (deterministic), and the bound is
// stated per family as  A + B*n*n  with n = number of relations.

import (
	"strconv"

	openfgav1 "github.com/openfga/api/proto/openfga/v1"

	"github.com/openfga/language/pkg/go/zzverif"
)

func wUnion(cs ...*openfgav1.Userset) *openfgav1.Userset {
	return &openfgav1.Userset{Userset: &openfgav1.Userset_Union{Union: &openfgav1.Usersets{Child: cs}}}
}

func wInter(cs ...*openfgav1.Userset) *openfgav1.Userset {
	return &openfgav1.Userset{Userset: &openfgav1.Userset_Intersection{Intersection: &openfgav1.Usersets{Child: cs}}}
}

// wModel builds family `shape` at depth d; returns the model and its number of relations.
func wModel(shape, d int) (*openfgav1.AuthorizationModel, int) {
	rels := map[string]*openfgav1.Userset{}
	meta := map[string]*openfgav1.RelationMetadata{}
	direct := func(name string, refs ...*openfgav1.RelationReference) {
		rels[name] = fThis()
		meta[name] = &openfgav1.RelationMetadata{DirectlyRelatedUserTypes: refs}
	}
	r := func(i int) string { return "r" + strconv.Itoa(i) }
	direct("r0", fRef("user"))
	direct("p", fRef("doc"))
	for i := 1; i <= d; i++ {
		prev := r(i - 1)
		switch shape {
		case 0: // r_i: r_{i-1} or r_{i-1} or r_{i-1}     3^d paths
			rels[r(i)] = wUnion(fComputed(prev), fComputed(prev), fComputed(prev))
		case 1: // a_i: r_{i-1}; b_i: r_{i-1}; r_i: a_i or b_i     2^d paths over 3d relations
			rels["a"+strconv.Itoa(i)] = fComputed(prev)
			rels["b"+strconv.Itoa(i)] = fComputed(prev)
			rels[r(i)] = wUnion(fComputed("a"+strconv.Itoa(i)), fComputed("b"+strconv.Itoa(i)))
		case 2: // r_i: r_{i-1} and r_{i-1}     intersections
			rels[r(i)] = wInter(fComputed(prev), fComputed(prev))
		case 3: // r_i: (r_{i-1} but not r_{i-1}) or r_{i-1}
			rels[r(i)] = wUnion(fOp(2, fComputed(prev), fComputed(prev)), fComputed(prev))
		case 4: // r_i: r_{i-1} from p or r_{i-1} from p     tuple-to-userset diamonds
			rels[r(i)] = wUnion(fTTU(prev, "p"), fTTU(prev, "p"))
		case 5: // r_i: [user, doc#r_{i-1}] or r_{i-1}     userset restrictions plus rewrite
			rels[r(i)] = wUnion(fThis(), fComputed(prev))
			meta[r(i)] = &openfgav1.RelationMetadata{DirectlyRelatedUserTypes: []*openfgav1.RelationReference{fRef("user"), fUserset("doc", prev)}}
		case 6: // r_i: [user] or r_i from p or r_{i-1} from p     a recursive relation per layer (tuple cycles)
			rels[r(i)] = wUnion(fThis(), fTTU(r(i), "p"), fTTU(prev, "p"))
			meta[r(i)] = &openfgav1.RelationMetadata{DirectlyRelatedUserTypes: []*openfgav1.RelationReference{fRef("user")}}
		case 7: // r_i: [doc#r_i, doc#r_{i-1}, user]     userset cycles per layer
			direct(r(i), fUserset("doc", r(i)), fUserset("doc", prev), fRef("user"))
		case 9: // r_i: r_{i+1} (a chain of computed usersets), closed below by r_d: r0 from p or ... or r_{d-1} from p
			if i < d {
				rels[r(i)] = fComputed(r(i + 1))
			} else {
				var cs []*openfgav1.Userset
				for j := 0; j < d; j++ {
					cs = append(cs, fTTU(r(j), "p"))
				}
				rels[r(d)] = wUnion(cs...)
			}
		}
	}
	size := 0
	switch shape {
	case 8: // every relation assignable from every other one: r_i: [user, doc#r_1, ..., doc#r_d] - the number of
		// elementary cycles is factorial in d while the model has d*(d+1) restrictions
		for i := 1; i <= d; i++ {
			refs := []*openfgav1.RelationReference{fRef("user")}
			for j := 1; j <= d; j++ {
				refs = append(refs, fUserset("doc", r(j)))
			}
			direct(r(i), refs...)
		}
		size = d * (d + 2)
	case 9:
		rels["r0"] = wUnion(fThis(), fComputed("r1"))
		size = 3 * d
	}
	m := &openfgav1.AuthorizationModel{SchemaVersion: "1.1", TypeDefinitions: []*openfgav1.TypeDefinition{
		{Type: "user"},
		{Type: "doc", Relations: rels, Metadata: &openfgav1.Metadata{Relations: meta}},
	}}
	if size > 0 {
		// families whose text grows faster than their number of relations: n is the size of the model
		return m, size
	}
	return m, len(rels)
}

const wShapes = 10

// VerifC08_BoundedWork: both graph builders on every family and every depth 1..D within the budget
// A + B*n*n instructions (parameters WA, WB; derived from the unchanged tree with a wide margin, see
// check.py).  MEASURE=1 reports the instructions used instead (calibration run, no budget).
func VerifC08_BoundedWork() {
	shape := zzverif.Param("SHAPE", -1)
	if shape < 0 {
		shape = zzverif.Choose("shape", wShapes)
	}
	d := 1 + zzverif.Choose("depth", zzverif.Param("D", 12))
	if dmin := zzverif.Param("DMIN", 0); d < dmin {
		return
	}
	if shape == 8 && d > 16 {
		return // the text of this family grows with the square of d: 16 is 288 restrictions
	}
	m, n := wModel(shape, d)
	budget := zzverif.Param("WA", 200000) + zzverif.Param("WB", 4000)*n*n
	if zzverif.Param("MEASURE", 0) == 1 {
		budget = 1 << 40
	}
	zzverif.Budget("weighted-graph-work-within-quadratic-bound", budget)
	wg, err := NewWeightedAuthorizationModelGraphBuilder().Build(m)
	used := zzverif.BudgetEnd()
	if zzverif.Param("MEASURE", 0) == 1 {
		zzverif.Observe("weighted shape="+strconv.Itoa(shape)+" d="+strconv.Itoa(d)+" n="+strconv.Itoa(n), strconv.Itoa(used))
	}
	if err == nil {
		zzverif.Assert(wg != nil, "result-or-error")
		zzverif.Reach("weighted-accepted")
	} else {
		zzverif.Reach("weighted-rejected")
	}
	zzverif.Budget("plain-graph-work-within-quadratic-bound", budget)
	g, err := NewAuthorizationModelGraph(m)
	used = zzverif.BudgetEnd()
	if zzverif.Param("MEASURE", 0) == 1 {
		zzverif.Observe("plain shape="+strconv.Itoa(shape)+" d="+strconv.Itoa(d)+" n="+strconv.Itoa(n), strconv.Itoa(used))
	}
	if err == nil {
		zzverif.Assert(g != nil, "result-or-error")
		zzverif.Reach("plain-accepted")
		// the queries on the plain graph: cycle information, reversal, DOT text
		zzverif.Budget("plain-graph-cycle-query-within-quadratic-bound", budget)
		g.GetCycles()
		used = zzverif.BudgetEnd()
		if zzverif.Param("MEASURE", 0) == 1 {
			zzverif.Observe("cycles shape="+strconv.Itoa(shape)+" d="+strconv.Itoa(d)+" n="+strconv.Itoa(n), strconv.Itoa(used))
		}
	}
}

// VerifC08_Growth: the work clause as a growth condition.  A budget A + B*n*n with generous constants only trips on
// an exponential computation; a cubic or quartic one stays below it for the sizes inside the bound.  Here the weighted
// builder is measured at depth d and at depth 2d of the same family (instructions executed - deterministic under the
// executor): for work that is at most quadratic in the size of the model, doubling the size multiplies the work by
// about four at most (lower-order terms only lower the ratio), so  work(2d) <= 1.25 * (size(2d)/size(d))^2 * work(d)
// (1.25 * 4 = 5 for the families whose size is linear in d; a cubic computation gives 8).  Natively the two builds are
// timed (slowest of twelve, the start node comes from map order) at twice the depth.
func VerifC08_Growth() {
	shape := zzverif.Choose("shape", wShapes)
	d := zzverif.Param("D", 24)
	if shape == 8 {
		d = 8
	}
	if !zzverif.Symbolic() && shape != 8 {
		d *= 2
	}
	m1, n1 := wModel(shape, d)
	m2, n2 := wModel(shape, 2*d)
	measure := func(m *openfgav1.AuthorizationModel) int {
		// natively the start node of the traversal comes from map order and the work depends on it: the slowest
		// of twelve builds (the executor measures the one order it is given)
		worst := 0
		runs := 1
		if !zzverif.Symbolic() {
			runs = 12
		}
		for i := 0; i < runs; i++ {
			w := zzverif.Work(func() { NewWeightedAuthorizationModelGraphBuilder().Build(m) })
			if w > worst {
				worst = w
			}
		}
		return worst
	}
	w1, w2 := measure(m1), measure(m2)
	zzverif.Class("weighted-graph-work-grows-at-most-quadratically", []string{"union of repeated computed usersets", "diamonds of computed usersets", "intersections", "exclusions", "tuple-to-userset diamonds", "userset restrictions plus rewrite", "recursive relation per layer", "userset cycles per layer", "every relation assignable from every other", "chain of computed usersets closed by tuple-to-usersets"}[shape])
	// integers only: w2 * 4 * n1^2 <= 5 * n2^2 * w1
	zzverif.Assert(w2*4*n1*n1 <= 5*n2*n2*w1, "weighted-graph-work-grows-at-most-quadratically")
	zzverif.Reach("measured")
}
