package graph

// Independent oracle for the weighted graph (DESIGN Appendix A): spec graph,
// key sets (least fixpoint), well-foundedness verdict, weights by longest walk /
// cycle reachability on the (node,type) dependency graph, wildcard reachability.
// Shares nothing with weighted_graph.go (no DFS with placeholders, no strategies).

import (
	"fmt"
	"sort"
	"strings"

	openfgav1 "github.com/openfga/api/proto/openfga/v1"
)

const (
	sType = iota
	sRel
	sOp
	sWild
)

type sEdge struct {
	from, to *sNode
	kind     EdgeType
	tupleset string
	conds    []string
}

type sNode struct {
	label  string // unique for type/relation/wildcard nodes; "op<k>" for operators
	kind   int
	op     string // UnionOperator ...
	out    []*sEdge
	groups [][]*sEdge // operand groups (operators), one group for relations
	seq    int
}

type sGraph struct {
	nodes   map[string]*sNode
	order   []*sNode
	invalid string
	nops    int
}

func (g *sGraph) node(label string, kind int) *sNode {
	if n, ok := g.nodes[label]; ok {
		return n
	}
	n := &sNode{label: label, kind: kind, seq: len(g.order)}
	g.nodes[label] = n
	g.order = append(g.order, n)
	return n
}

func (g *sGraph) findEdge(from, to *sNode, kind EdgeType, tupleset string) *sEdge {
	for _, e := range from.out {
		if e.to == to && e.kind == kind && e.tupleset == tupleset {
			return e
		}
	}
	return nil
}

func specRelationExists(m *openfgav1.AuthorizationModel, typ, rel string) bool {
	for _, td := range m.GetTypeDefinitions() {
		if td.GetType() == typ {
			_, ok := td.GetRelations()[rel]
			return ok
		}
	}
	return false
}

func sortedKeys[V any](m map[string]V) []string {
	ks := make([]string, 0, len(m))
	for k := range m {
		ks = append(ks, k)
	}
	sort.Strings(ks)
	return ks
}

// emit returns the operand group (edges emitted for, or shared by, this child).
func (g *sGraph) emit(m *openfgav1.AuthorizationModel, td *openfgav1.TypeDefinition, rel string, parent *sNode, u *openfgav1.Userset) []*sEdge {
	T := td.GetType()
	switch x := u.GetUserset().(type) {
	case *openfgav1.Userset_This:
		var group []*sEdge
		var restr []*openfgav1.RelationReference
		if md, ok := td.GetMetadata().GetRelations()[rel]; ok {
			restr = md.GetDirectlyRelatedUserTypes()
		}
		for _, r := range restr {
			var target *sNode
			switch {
			case r.GetRelationOrWildcard() == nil:
				target = g.node(r.GetType(), sType)
			case r.GetWildcard() != nil:
				target = g.node(r.GetType()+":*", sWild)
			default:
				target = g.node(r.GetType()+"#"+r.GetRelation(), sRel)
			}
			// the unconditioned marker is kept apart from a condition that happens to be NAMED like it ("none"): the
			// property speaks of the set of condition names plus the marker, [user, user with none] has two entries
			cond := r.GetCondition()
			if cond == "" {
				cond = "\x00" + NoCond
			}
			// one edge per distinct target of THIS direct assignment (conditions folded into it); a direct assignment
			// written twice under one operator (JSON only) has its own edges, like any repeated operand
			var e *sEdge
			for _, ge := range group {
				if ge.to == target && ge.kind == DirectEdge {
					e = ge
				}
			}
			if e == nil {
				e = &sEdge{from: parent, to: target, kind: DirectEdge, conds: []string{cond}}
				parent.out = append(parent.out, e)
			} else {
				has := false
				for _, c := range e.conds {
					if c == cond {
						has = true
					}
				}
				if !has {
					e.conds = append(e.conds, cond)
				}
			}
			in := false
			for _, ge := range group {
				if ge == e {
					in = true
				}
			}
			if !in {
				group = append(group, e)
			}
		}
		return group
	case *openfgav1.Userset_ComputedUserset:
		target := g.node(T+"#"+x.ComputedUserset.GetRelation(), sRel)
		kind := RewriteEdge
		if parent.kind == sRel {
			kind = ComputedEdge
		}
		e := &sEdge{from: parent, to: target, kind: kind, conds: []string{NoCond}}
		parent.out = append(parent.out, e)
		return []*sEdge{e}
	case *openfgav1.Userset_TupleToUserset:
		ts := x.TupleToUserset.GetTupleset().GetRelation()
		c := x.TupleToUserset.GetComputedUserset().GetRelation()
		md, ok := td.GetMetadata().GetRelations()[ts]
		if !ok || len(md.GetDirectlyRelatedUserTypes()) == 0 {
			if g.invalid == "" {
				g.invalid = "tupleset " + T + "#" + ts + " has no type restriction"
			}
			return nil
		}
		var group []*sEdge
		for _, r := range md.GetDirectlyRelatedUserTypes() {
			if !specRelationExists(m, r.GetType(), c) {
				if g.invalid == "" {
					g.invalid = "parent type " + r.GetType() + " lacks relation " + c
				}
				return group
			}
			target := g.node(r.GetType()+"#"+c, sRel)
			label := T + "#" + ts
			// one edge per parent type and OCCURRENCE of the tuple-to-userset: a parent type listed twice in the
			// tupleset (`[group, group with c]`) is folded, the same operand written twice under one operator is not
			var e *sEdge
			for _, ge := range group {
				if ge.to == target && ge.kind == TTUEdge && ge.tupleset == label {
					e = ge
				}
			}
			if e == nil {
				cond := r.GetCondition()
				if cond == "" {
					cond = NoCond
				}
				e = &sEdge{from: parent, to: target, kind: TTUEdge, tupleset: label, conds: []string{cond}}
				parent.out = append(parent.out, e)
			}
			in := false
			for _, ge := range group {
				if ge == e {
					in = true
				}
			}
			if !in {
				group = append(group, e)
			}
		}
		return group
	}
	var op string
	var children []*openfgav1.Userset
	switch x := u.GetUserset().(type) {
	case *openfgav1.Userset_Union:
		op, children = UnionOperator, x.Union.GetChild()
	case *openfgav1.Userset_Intersection:
		op, children = IntersectionOperator, x.Intersection.GetChild()
	case *openfgav1.Userset_Difference:
		op, children = ExclusionOperator, []*openfgav1.Userset{x.Difference.GetBase(), x.Difference.GetSubtract()}
	default:
		if g.invalid == "" {
			g.invalid = "unset rewrite"
		}
		return nil
	}
	g.nops++
	o := g.node(fmt.Sprintf("op%d", g.nops), sOp)
	o.op = op
	e := &sEdge{from: parent, to: o, kind: RewriteEdge, conds: []string{NoCond}}
	parent.out = append(parent.out, e)
	for _, c := range children {
		grp := g.emit(m, td, rel, o, c)
		if g.invalid != "" {
			return []*sEdge{e}
		}
		o.groups = append(o.groups, grp)
	}
	return []*sEdge{e}
}

func specGraph(m *openfgav1.AuthorizationModel) *sGraph {
	g := &sGraph{nodes: map[string]*sNode{}}
	tds := append([]*openfgav1.TypeDefinition{}, m.GetTypeDefinitions()...)
	for i := 1; i < len(tds); i++ { // insertion sort (sort.Slice needs reflection)
		for j := i; j > 0 && tds[j].GetType() < tds[j-1].GetType(); j-- {
			tds[j], tds[j-1] = tds[j-1], tds[j]
		}
	}
	for _, td := range tds {
		g.node(td.GetType(), sType)
		for _, rel := range sortedKeys(td.GetRelations()) {
			n := g.node(td.GetType()+"#"+rel, sRel)
			grp := g.emit(m, td, rel, n, td.GetRelations()[rel])
			if g.invalid != "" {
				return g
			}
			_ = grp
		}
	}
	for _, n := range g.order {
		if n.kind == sRel {
			n.groups = [][]*sEdge{n.out}
		}
	}
	return g
}

// ---- key sets

type keySet map[string]bool

func (g *sGraph) keySets() map[*sNode]keySet {
	K := map[*sNode]keySet{}
	for _, n := range g.order {
		K[n] = keySet{}
		if n.kind == sType {
			K[n][n.label] = true
		}
		if n.kind == sWild {
			K[n][n.label[:len(n.label)-2]] = true
		}
	}
	unionOf := func(es []*sEdge) keySet {
		u := keySet{}
		for _, e := range es {
			for k := range K[e.to] {
				u[k] = true
			}
		}
		return u
	}
	for changed := true; changed; {
		changed = false
		for _, n := range g.order {
			var nk keySet
			switch {
			case n.kind == sType || n.kind == sWild:
				continue
			case n.kind == sOp && n.op == IntersectionOperator:
				for i, grp := range n.groups {
					u := unionOf(grp)
					if i == 0 {
						nk = u
						continue
					}
					for k := range nk {
						if !u[k] {
							delete(nk, k)
						}
					}
				}
				if nk == nil {
					nk = keySet{}
				}
			case n.kind == sOp && n.op == ExclusionOperator:
				nk = keySet{}
				if len(n.groups) > 0 {
					nk = unionOf(n.groups[0])
				}
			default:
				nk = unionOf(n.out)
			}
			for k := range nk {
				if !K[n][k] {
					K[n][k] = true
					changed = true
				}
			}
		}
	}
	return K
}

// ---- verdict

// cycleThrough reports whether the graph restricted by keep has a cycle; if
// through != nil only cycles visiting a node for which through() holds count.
func (g *sGraph) hasCycle(keep func(*sEdge) bool, through func(*sNode) bool) bool {
	// reach[a][b]: b reachable from a by >= 1 kept edge
	reach := map[*sNode]map[*sNode]bool{}
	for _, n := range g.order {
		r := map[*sNode]bool{}
		stack := []*sNode{n}
		for len(stack) > 0 {
			x := stack[len(stack)-1]
			stack = stack[:len(stack)-1]
			for _, e := range x.out {
				if keep(e) && !r[e.to] {
					r[e.to] = true
					stack = append(stack, e.to)
				}
			}
		}
		reach[n] = r
	}
	for _, n := range g.order {
		if reach[n][n] && (through == nil || through(n)) {
			return true
		}
	}
	return false
}

// specVerdict returns "" for a well-founded model, else the reason class.
func (g *sGraph) specVerdict(K map[*sNode]keySet) string {
	if g.invalid != "" {
		return "invalid:" + g.invalid
	}
	if g.hasCycle(func(e *sEdge) bool { return e.kind == RewriteEdge || e.kind == ComputedEdge }, nil) {
		return "rewrite-only cycle"
	}
	if g.hasCycle(func(e *sEdge) bool { return true }, func(n *sNode) bool {
		return n.kind == sOp && (n.op == IntersectionOperator || n.op == ExclusionOperator)
	}) {
		return "intersection or exclusion on a cycle"
	}
	for _, n := range g.order {
		if (n.kind == sRel || n.kind == sOp) && len(K[n]) == 0 {
			if n.kind == sOp && n.op == IntersectionOperator {
				return "intersection without common type"
			}
			return "no terminal type reachable"
		}
	}
	return ""
}

// ---- weights

type nt struct {
	n *sNode
	t string
}

func (g *sGraph) weights(K map[*sNode]keySet) map[*sNode]map[string]int {
	succ := func(p nt) []nt {
		var out []nt
		for _, e := range p.n.out {
			if K[e.to][p.t] {
				out = append(out, nt{e.to, p.t})
			}
		}
		return out
	}
	hop := func(from, to *sNode) int {
		h := 0
		for _, e := range from.out {
			if e.to == to && (e.kind == DirectEdge || e.kind == TTUEdge) {
				h = 1
			}
		}
		return h
	}
	// cyc[p]: p reaches a cycle of the dependency graph
	onCycle := map[nt]bool{}
	var all []nt
	for _, n := range g.order {
		for _, t := range sortedKeys(K[n]) {
			all = append(all, nt{n, t})
		}
	}
	reachSet := func(p nt) map[nt]bool {
		r := map[nt]bool{}
		stack := []nt{p}
		for len(stack) > 0 {
			x := stack[len(stack)-1]
			stack = stack[:len(stack)-1]
			for _, s := range succ(x) {
				if !r[s] {
					r[s] = true
					stack = append(stack, s)
				}
			}
		}
		return r
	}
	reach := map[nt]map[nt]bool{}
	for _, p := range all {
		reach[p] = reachSet(p)
		if reach[p][p] {
			onCycle[p] = true
		}
	}
	inf := map[nt]bool{}
	for _, p := range all {
		if onCycle[p] {
			inf[p] = true
			continue
		}
		for q := range reach[p] {
			if onCycle[q] {
				inf[p] = true
				break
			}
		}
	}
	memo := map[nt]int{}
	var depth func(p nt) int
	depth = func(p nt) int {
		if inf[p] {
			return Infinite
		}
		if v, ok := memo[p]; ok {
			return v
		}
		best := 0
		for _, e := range p.n.out {
			if !K[e.to][p.t] {
				continue
			}
			d := depth(nt{e.to, p.t})
			if d != Infinite && (e.kind == DirectEdge || e.kind == TTUEdge) {
				d++
			}
			if d > best {
				best = d
			}
		}
		memo[p] = best
		return best
	}
	_ = hop
	W := map[*sNode]map[string]int{}
	for _, n := range g.order {
		W[n] = map[string]int{}
		for t := range K[n] {
			W[n][t] = depth(nt{n, t})
		}
	}
	return W
}

func (g *sGraph) edgeWeights(e *sEdge, K map[*sNode]keySet, W map[*sNode]map[string]int) map[string]int {
	out := map[string]int{}
	for t := range K[e.to] {
		w := W[e.to][t]
		if w != Infinite && (e.kind == DirectEdge || e.kind == TTUEdge) {
			w++
		}
		out[t] = w
	}
	return out
}

// ---- wildcards

func (g *sGraph) wildcards(n *sNode) []string {
	seen := map[*sNode]bool{n: true}
	stack := []*sNode{n}
	set := map[string]bool{}
	for len(stack) > 0 {
		x := stack[len(stack)-1]
		stack = stack[:len(stack)-1]
		if x.kind == sWild {
			set[x.label[:len(x.label)-2]] = true
		}
		for _, e := range x.out {
			if !seen[e.to] {
				seen[e.to] = true
				stack = append(stack, e.to)
			}
		}
	}
	return sortedKeys(set)
}

// ---- feature predicates (classes of known findings)

// hasEmptyOperand: an operand of an intersection or exclusion that consists of no edge at all (a direct assignment
// without type restrictions): the graph has no trace of it, the strategies count edges
func (g *sGraph) hasEmptyOperand() bool {
	for _, n := range g.order {
		if n.kind == sOp && n.op != UnionOperator {
			for _, grp := range n.groups {
				if len(grp) == 0 {
					return true
				}
			}
		}
	}
	return false
}

func (g *sGraph) hasMultiEdgeOperand() bool {
	for _, n := range g.order {
		if n.kind == sOp && n.op != UnionOperator {
			for gi, grp := range n.groups {
				// exclusion: the code takes every edge but the last as the base, which is right for a
				// base made of several edges; only a subtracted operand of several edges is mishandled
				if n.op == ExclusionOperator && gi != len(n.groups)-1 {
					continue
				}
				if len(grp) > 1 {
					return true
				}
			}
			// an edge shared by two operand groups is also an operand-grouping matter
			cnt := map[*sEdge]int{}
			for _, grp := range n.groups {
				for _, e := range grp {
					cnt[e]++
					if cnt[e] > 1 {
						return true
					}
				}
			}
		}
	}
	return false
}

func fmtWeights(w map[string]int) string {
	var parts []string
	for _, k := range sortedKeys(w) {
		v := fmt.Sprint(w[k])
		if w[k] == Infinite {
			v = "inf"
		}
		parts = append(parts, k+":"+v)
	}
	return "{" + strings.Join(parts, ",") + "}"
}
