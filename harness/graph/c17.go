package graph

// C17 - the plain (gonum-backed) authorization-model graph: faithful to the rewrite, reversible,
// stable DOT, sound path queries, label lookup, compile-time cycles.
//
// gonum itself (multi.DirectedGraph, topo.PathExistsIn, topo.DirectedCyclesIn, dot.MarshalMulti) is
// executed as it is; only its map iterator (unsafe + go:linkname) is replaced by an equivalent `range`
// loop (harness/dep/gonum_iterator/map.go, overlaid for the executor and for the native replay), so
// that the order of every map iteration - gonum's and the repository's - is a schedule choice.

import (
	"sort"
	"strconv"
	"strings"

	openfgav1 "github.com/openfga/api/proto/openfga/v1"
	"google.golang.org/protobuf/proto"

	"github.com/openfga/language/pkg/go/zzverif"
)

// ---- the specification: what the rewrite dictates

type pNode struct {
	label string // unique label of a named node; operator name of an operator node
	kind  NodeType
	in    []*pLine
}

type pLine struct {
	from     *pNode
	kind     EdgeType
	tupleset string
}

type pGraph struct {
	named map[string]*pNode
	ops   []*pNode
	order []*pNode // named nodes in creation order
}

func (g *pGraph) node(label string, kind NodeType) *pNode {
	if n, ok := g.named[label]; ok {
		return n
	}
	n := &pNode{label: label, kind: kind}
	g.named[label] = n
	g.order = append(g.order, n)
	return n
}

func (g *pGraph) hasLine(to, from *pNode, kind EdgeType, ts string) bool {
	for _, l := range to.in {
		if l.from == from && l.kind == kind && l.tupleset == ts {
			return true
		}
	}
	return false
}

func pHasRelation(m *openfgav1.AuthorizationModel, typ, rel string) bool {
	for _, td := range m.GetTypeDefinitions() {
		if td.GetType() == typ {
			if _, ok := td.GetRelations()[rel]; ok {
				return true
			}
		}
	}
	return false
}

func (g *pGraph) rewrite(m *openfgav1.AuthorizationModel, td *openfgav1.TypeDefinition, rel string, u *openfgav1.Userset, parent *pNode) {
	switch {
	case u.GetThis() != nil:
		seenSrc := map[*pNode]bool{}
		for _, r := range td.GetMetadata().GetRelations()[rel].GetDirectlyRelatedUserTypes() {
			var src *pNode
			switch {
			case r.GetWildcard() != nil:
				src = g.node(r.GetType()+":*", SpecificTypeWildcard)
			case r.GetRelation() != "":
				src = g.node(r.GetType()+"#"+r.GetRelation(), SpecificTypeAndRelation)
			default:
				src = g.node(r.GetType(), SpecificType)
			}
			// one direct line per source of THIS direct assignment, whatever the number of conditions (a direct
			// assignment written twice under one operator is drawn twice, like any repeated operand)
			if !seenSrc[src] {
				seenSrc[src] = true
				parent.in = append(parent.in, &pLine{from: src, kind: DirectEdge})
			}
		}
	case u.GetComputedUserset() != nil:
		src := g.node(td.GetType()+"#"+u.GetComputedUserset().GetRelation(), SpecificTypeAndRelation)
		kind := RewriteEdge
		if parent.kind == SpecificTypeAndRelation {
			kind = ComputedEdge // relation defined as exactly another relation
		}
		parent.in = append(parent.in, &pLine{from: src, kind: kind})
	case u.GetTupleToUserset() != nil:
		ts := u.GetTupleToUserset().GetTupleset().GetRelation()
		c := u.GetTupleToUserset().GetComputedUserset().GetRelation()
		// one line per parent type and occurrence of the tuple-to-userset (a parent type listed twice in the tupleset
		// is folded; the same operand written twice under one operator is drawn twice, like a repeated computed operand)
		seen := map[string]bool{}
		for _, r := range td.GetMetadata().GetRelations()[ts].GetDirectlyRelatedUserTypes() {
			if !pHasRelation(m, r.GetType(), c) {
				continue
			}
			src := g.node(r.GetType()+"#"+c, SpecificTypeAndRelation)
			if !seen[r.GetType()] {
				seen[r.GetType()] = true
				parent.in = append(parent.in, &pLine{from: src, kind: TTUEdge, tupleset: td.GetType() + "#" + ts})
			}
		}
	default:
		var kids []*openfgav1.Userset
		op := ""
		switch {
		case u.GetUnion() != nil:
			op, kids = UnionOperator, u.GetUnion().GetChild()
		case u.GetIntersection() != nil:
			op, kids = IntersectionOperator, u.GetIntersection().GetChild()
		case u.GetDifference() != nil:
			op, kids = ExclusionOperator, []*openfgav1.Userset{u.GetDifference().GetBase(), u.GetDifference().GetSubtract()}
		}
		o := &pNode{label: op, kind: OperatorNode}
		g.ops = append(g.ops, o)
		parent.in = append(parent.in, &pLine{from: o, kind: RewriteEdge})
		for _, k := range kids {
			g.rewrite(m, td, rel, k, o)
		}
	}
}

func pSpec(m *openfgav1.AuthorizationModel) *pGraph {
	g := &pGraph{named: map[string]*pNode{}}
	for _, td := range m.GetTypeDefinitions() {
		g.node(td.GetType(), SpecificType)
		var rels []string
		for r := range td.GetRelations() {
			rels = append(rels, r)
		}
		sort.Strings(rels)
		for _, r := range rels {
			g.rewrite(m, td, r, td.GetRelations()[r], g.node(td.GetType()+"#"+r, SpecificTypeAndRelation))
		}
	}
	return g
}

// describe: canonical text of a node's incoming lines (operator nodes, which have no stable name, are
// described in place).
func (n *pNode) describe() string {
	var parts []string
	for _, l := range n.in {
		src := l.from.label
		if l.from.kind == OperatorNode {
			src = "(" + l.from.label + " " + l.from.describe() + ")"
		}
		parts = append(parts, strconv.Itoa(int(l.kind))+"|"+l.tupleset+"|"+src)
	}
	sort.Strings(parts)
	return strings.Join(parts, " , ")
}

func (g *pGraph) text() string {
	var labels []string
	for l := range g.named {
		labels = append(labels, l)
	}
	sort.Strings(labels)
	var out []string
	for _, l := range labels {
		n := g.named[l]
		out = append(out, l+"/"+strconv.Itoa(int(n.kind))+" <- "+n.describe())
	}
	return strings.Join(out, "\n")
}

func (g *pGraph) lines() int {
	c := 0
	for _, n := range g.named {
		c += len(n.in)
	}
	for _, n := range g.ops {
		c += len(n.in)
	}
	return c
}

// hasCycle: any directed cycle (used for "an acyclic model reports none").
func (g *pGraph) hasCycle() bool {
	state := map[*pNode]int{}
	var visit func(n *pNode) bool
	visit = func(n *pNode) bool {
		switch state[n] {
		case 1:
			return true
		case 2:
			return false
		}
		state[n] = 1
		for _, l := range n.in {
			if visit(l.from) {
				return true
			}
		}
		state[n] = 2
		return false
	}
	for _, n := range g.order {
		if visit(n) {
			return true
		}
	}
	return false
}

// pureComputedCycle: two or more relations, each defined as exactly the next one.
func pPureComputedCycle(m *openfgav1.AuthorizationModel) bool {
	for _, td := range m.GetTypeDefinitions() {
		next := map[string]string{}
		for r, u := range td.GetRelations() {
			if u.GetComputedUserset() != nil {
				next[r] = u.GetComputedUserset().GetRelation()
			}
		}
		for start := range next {
			cur, steps := start, 0
			for steps <= len(next) {
				nx, ok := next[cur]
				if !ok {
					break
				}
				cur = nx
				steps++
				if cur == start {
					if steps >= 2 {
						return true
					}
					break
				}
			}
		}
	}
	return false
}

// ---- the same description of the real graph (through gonum's public API)

func realDescribe(g *AuthorizationModelGraph, n *AuthorizationModelNode, depth int) string {
	if depth > 40 {
		return "..."
	}
	var parts []string
	from := g.To(n.ID())
	for from.Next() {
		f, _ := from.Node().(*AuthorizationModelNode)
		lines := g.Lines(f.ID(), n.ID())
		for lines.Next() {
			e, _ := lines.Line().(*AuthorizationModelEdge)
			src := f.uniqueLabel
			if f.nodeType == OperatorNode {
				src = "(" + f.label + " " + realDescribe(g, f, depth+1) + ")"
			}
			parts = append(parts, strconv.Itoa(int(e.edgeType))+"|"+e.tuplesetRelation+"|"+src)
		}
	}
	sort.Strings(parts)
	return strings.Join(parts, " , ")
}

func realText(g *AuthorizationModelGraph) (string, int, int) {
	var labels []string
	byLabel := map[string]*AuthorizationModelNode{}
	nodes, lines := 0, 0
	it := g.Nodes()
	for it.Next() {
		n, _ := it.Node().(*AuthorizationModelNode)
		nodes++
		if n.nodeType != OperatorNode {
			labels = append(labels, n.uniqueLabel)
			byLabel[n.uniqueLabel] = n
		}
		to := g.From(n.ID())
		for to.Next() {
			lines += g.Lines(n.ID(), to.Node().ID()).Len()
		}
	}
	sort.Strings(labels)
	var out []string
	for _, l := range labels {
		n := byLabel[l]
		out = append(out, l+"/"+strconv.Itoa(int(n.nodeType))+" <- "+realDescribe(g, n, 0))
	}
	return strings.Join(out, "\n"), nodes, lines
}

// lineList: every line as "from -> to kind tupleset conditions" (operator nodes by unique label), sorted.
func lineList(g *AuthorizationModelGraph, flip bool) []string {
	var out []string
	it := g.Nodes()
	for it.Next() {
		n, _ := it.Node().(*AuthorizationModelNode)
		to := g.From(n.ID())
		for to.Next() {
			t, _ := to.Node().(*AuthorizationModelNode)
			ls := g.Lines(n.ID(), t.ID())
			for ls.Next() {
				e, _ := ls.Line().(*AuthorizationModelEdge)
				a, b := n.uniqueLabel, t.uniqueLabel
				if flip {
					a, b = b, a
				}
				out = append(out, a+" -> "+b+" "+strconv.Itoa(int(e.edgeType))+" "+e.tuplesetRelation+" ["+strings.Join(e.conditions, ",")+"]")
			}
		}
	}
	sort.Strings(out)
	return out
}

func nodeList(g *AuthorizationModelGraph) []string {
	var out []string
	it := g.Nodes()
	for it.Next() {
		n, _ := it.Node().(*AuthorizationModelNode)
		out = append(out, strconv.FormatInt(n.ID(), 10)+"="+n.uniqueLabel+"/"+n.label+"/"+strconv.Itoa(int(n.nodeType)))
	}
	sort.Strings(out)
	return out
}

// ---- harnesses

func c17Model() (*openfgav1.AuthorizationModel, string) {
	zzverif.UlidOrder()
	return fFamilyModel()
}

// VerifC17_Faithful: nodes, typed lines and direction are what the rewrite dictates; label lookup.
func VerifC17_Faithful() {
	m, key := c17Model()
	g, err := NewAuthorizationModelGraph(m)
	zzverif.Assert(err == nil && g != nil, "plain-graph-builds")
	if err != nil {
		return
	}
	spec := pSpec(m)
	got, nodes, lines := realText(g)
	want := spec.text()
	if got != want {
		zzverif.Log("model", key, "\nwant\n"+want+"\ngot\n"+got)
	}
	zzverif.Assert(got == want, "nodes-and-typed-lines-are-what-the-rewrite-dictates")
	zzverif.Assert(nodes == len(spec.named)+len(spec.ops), "node-count")
	zzverif.Assert(lines == spec.lines(), "line-count")
	zzverif.Assert(g.GetDrawingDirection() == DrawingDirectionListObjects, "drawn-from-user-types-towards-relations")
	// label lookup: exactly the type, relation and wildcard nodes
	pool := []string{"user", "employee", "doc", "org", "bare", "user:*", "employee:*", "doc:*", "doc#a", "doc#b", "doc#c", "doc#p", "doc#x", "org#a", "org#b",
		"union", "intersection", "exclusion", "", "doc#", "#a", "user#a"}
	for _, l := range pool {
		n, err := g.GetNodeByLabel(l)
		sn, ok := spec.named[l]
		if ok {
			zzverif.Assert(err == nil && n != nil, "label-lookup-finds-named-node")
			if err == nil && n != nil {
				zzverif.Assert(n.Label() == l && n.NodeType() == sn.kind, "label-lookup-returns-that-node")
			}
		} else {
			zzverif.Assert(err != nil && n == nil, "label-lookup-finds-nothing-else")
		}
	}
	zzverif.Reach("built")
}

// VerifC17_Reversed: reversal flips every line and the direction and nothing else; twice = identity on
// the DOT text; path duality for all pairs of labels.
func VerifC17_Reversed() {
	m, _ := c17Model()
	window := zzverif.Choose("label-window", zzverif.Param("WINDOWS", 8))
	g, err := NewAuthorizationModelGraph(m)
	if err != nil {
		return
	}
	r, err := g.Reversed()
	zzverif.Assert(err == nil && r != nil, "reversed-builds")
	if err != nil {
		return
	}
	zzverif.Assert(r.GetDrawingDirection() == !g.GetDrawingDirection(), "reversal-flips-the-direction")
	zzverif.Assert(strings.Join(nodeList(g), "\n") == strings.Join(nodeList(r), "\n"), "reversal-keeps-the-nodes")
	zzverif.Assert(strings.Join(lineList(g, true), "\n") == strings.Join(lineList(r, false), "\n"), "reversal-flips-every-line-and-nothing-else")
	// the original is untouched
	zzverif.Assert(g.GetDrawingDirection() == DrawingDirectionListObjects, "reversal-leaves-the-original-direction")
	rr, err := r.Reversed()
	zzverif.Assert(err == nil && rr != nil, "reversed-builds")
	if err != nil {
		return
	}
	d0, d2 := g.GetDOT(), rr.GetDOT()
	if d0 != d2 {
		zzverif.Log("dot", d0, "\n-- twice reversed --\n", d2)
	}
	zzverif.Assert(d0 != "", "dot-not-empty")
	zzverif.Assert(d0 == d2, "reversing-twice-restores-the-dot-text")
	zzverif.Reach("reversed")
	// path duality, all pairs of named labels (and one that does not exist)
	var labels []string
	for l := range g.ids {
		if !strings.Contains(l, ":0") { // operator nodes (label:ULID) are looked up by the pairs below as well
			labels = append(labels, l)
		}
	}
	sort.Strings(labels)
	labels = append(labels, "ghost")
	// all pairs (a, b): a from a window of PAIRS labels chosen by the explorer (up front, taken modulo the
	// number of windows, so that every label is the source on some path), b any label
	lim := zzverif.Param("PAIRS", 6)
	from := labels
	if len(labels) > lim {
		nw := (len(labels) + lim - 1) / lim
		off := (window % nw) * lim
		end := off + lim
		if end > len(labels) {
			end = len(labels)
		}
		from = labels[off:end]
	}
	for _, a := range from {
		for _, b := range labels {
			p1, e1 := g.PathExists(a, b)
			p2, e2 := r.PathExists(b, a)
			zzverif.Assert((e1 == nil) == (e2 == nil), "path-query-errors-agree")
			zzverif.Assert(p1 == p2, "path-a-to-b-iff-path-b-to-a-in-reversed")
			if a == b && a != "ghost" {
				zzverif.Assert(p1 && e1 == nil, "path-to-itself")
			}
		}
	}
	zzverif.Reach("paths")
}

// VerifC17_Stable: the DOT text (of the graph and of its reversal) is the same on every build of the
// same model: every map order explored, ULIDs ascending and descending.
func VerifC17_Stable() {
	m, key := c17Model()
	g, err := NewAuthorizationModelGraph(m)
	if err != nil {
		return
	}
	zzverif.Observe("dot "+key, g.GetDOT())
	if zzverif.Param("REV", 1) == 1 {
		r, err := g.Reversed()
		if err == nil {
			zzverif.Observe("reversed dot "+key, r.GetDOT())
		}
	}
	zzverif.Reach("rendered")
}

// VerifC17_Cycles: a cycle of two or more pure computed relations is a compile-time cycle; an acyclic
// model reports no cycle of either kind.
func VerifC17_Cycles() {
	m, _ := c17Model()
	g, err := NewAuthorizationModelGraph(m)
	if err != nil {
		return
	}
	c := g.GetCycles()
	spec := pSpec(m)
	if pPureComputedCycle(m) {
		zzverif.Assert(c.hasCyclesAtCompileTime, "pure-computed-cycle-is-a-compile-time-cycle")
		zzverif.Reach("compile-time-cycle")
	}
	if !spec.hasCycle() {
		zzverif.Assert(!c.hasCyclesAtCompileTime && !c.canHaveCyclesAtRuntime, "acyclic-model-reports-no-cycle")
		zzverif.Reach("acyclic")
	} else if !pPureComputedCycle(m) {
		zzverif.Reach("other-cycle") // the property leaves the classification of other cycles open
	}
}

// VerifC13_PlainGraphFrozen: building, rendering, querying and reversing the plain graph writes neither
// into the model nor - for Reversed, GetDOT, PathExists, GetCycles - into the graph they are called on.
func VerifC13_PlainGraphFrozen() {
	m, _ := fFamilyModel()
	zzverif.Freeze("model handed to NewAuthorizationModelGraph", m)
	if !zzverif.Symbolic() {
		snap := proto.Clone(m)
		zzverif.FreezeNative("model handed to NewAuthorizationModelGraph", func() bool { return proto.Equal(snap, m) })
	}
	g, err := NewAuthorizationModelGraph(m)
	if err != nil {
		return
	}
	zzverif.Freeze("graph handed to Reversed/GetDOT/PathExists/GetCycles", g)
	r, _ := g.Reversed()
	_ = g.GetDOT()
	_, _ = g.PathExists("user", "doc#a")
	_ = g.GetCycles()
	if r != nil {
		// the label index of the copy is its own (the code says so); edge condition slices are shared
		// between the two graphs, which no public function writes to after the build: not asserted
		r.ids["zz"] = 99
	}
	_, has := g.ids["zz"]
	zzverif.Assert(!has, "reversed-graph-has-its-own-label-index")
	zzverif.Reach("queried")
}

// VerifC17_StableNames: relation names that are close to each other (differ in case only, prefixes of
// each other): one DOT text per model over every order of the relations map.
func VerifC17_StableNames() {
	zzverif.UlidOrder()
	menu := []string{"a", "A", "b", "ab", "B", "a_b", "aB"}
	i := zzverif.Choose("first", len(menu))
	j := zzverif.Choose("second", len(menu))
	k := zzverif.Choose("third", len(menu))
	if i >= j || j >= k {
		zzverif.Skip("names in menu order only (the model is a set of relations)")
		return
	}
	n1, n2, n3 := menu[i], menu[j], menu[k]
	td := &openfgav1.TypeDefinition{Type: "doc", Relations: map[string]*openfgav1.Userset{
		n1: fThis(), n2: fComputed(n1), n3: fOp(zzverif.Choose("op", 3), fThis(), fComputed(n2))},
		Metadata: &openfgav1.Metadata{Relations: map[string]*openfgav1.RelationMetadata{
			n1: {DirectlyRelatedUserTypes: []*openfgav1.RelationReference{fRef("user")}},
			n3: {DirectlyRelatedUserTypes: []*openfgav1.RelationReference{fRef("user"), fUserset("doc", n1)}}}}}
	m := &openfgav1.AuthorizationModel{SchemaVersion: "1.1", TypeDefinitions: []*openfgav1.TypeDefinition{{Type: "user"}, td}}
	g, err := NewAuthorizationModelGraph(m)
	if err != nil {
		return
	}
	key := n1 + "," + n2 + "," + n3
	zzverif.Observe("dot "+key, g.GetDOT())
	if r, err := g.Reversed(); err == nil {
		zzverif.Observe("reversed dot "+key, r.GetDOT())
	}
	spec := pSpec(m)
	got, _, _ := realText(g)
	zzverif.Assert(got == spec.text(), "nodes-and-typed-lines-are-what-the-rewrite-dictates")
	zzverif.Reach("rendered")
}

// VerifC17_Lookup: label lookup and path queries for an arbitrary label (every byte string up to the
// length bound; the solver decides which node, if any, it names): found exactly when it is the label of
// a type, relation or wildcard node of the specification; a path query with it errs exactly then not.
func VerifC17_Lookup() {
	m, _ := fFamilyModel()
	g, err := NewAuthorizationModelGraph(m)
	if err != nil {
		return
	}
	spec := pSpec(m)
	s := zzverif.Str("label", 0, zzverif.Param("LEN", 6), "")
	n, lerr := g.GetNodeByLabel(s)
	named := false
	var labels []string
	for l := range spec.named {
		labels = append(labels, l)
	}
	sort.Strings(labels)
	for _, l := range labels {
		if s == l {
			named = true
			zzverif.Assert(lerr == nil && n != nil && n.Label() == l && n.NodeType() == spec.named[l].kind, "label-lookup-returns-that-node")
			zzverif.Reach("found")
		}
	}
	if !named {
		zzverif.Assert(lerr != nil && n == nil, "label-lookup-finds-nothing-else")
		zzverif.Reach("absent")
	}
	_, e1 := g.PathExists(s, "doc#a")
	_, e2 := g.PathExists("doc#a", s)
	zzverif.Assert((e1 == nil) == named && (e2 == nil) == named, "path-query-errs-exactly-for-unknown-labels")
	ok, e3 := g.PathExists(s, s)
	zzverif.Assert((e3 == nil) == named && ok == named, "path-to-itself")
}
