package graph

// C04 / C11 kernel lemmas: one strategy call on a node whose edges carry
// symbolic weight maps (presence and value of every key are solver variables),
// one wildcard helper call on symbolic duplicate-free lists incl. aliasing.

import (
	"fmt"

	"github.com/openfga/language/pkg/go/zzverif"
)

var kKeysAll = []string{"user", "employee", "group"}
var kKeys = kKeysAll

// kSymWeights: every key present or absent (Bool), value in [1,64] or Infinite.
func kSymWeights(tag string) (map[string]int, map[string]bool) {
	w := map[string]int{}
	present := map[string]bool{}
	for _, k := range kKeys {
		if zzverif.Choose(tag+"."+k+".present", 2) == 1 {
			present[k] = true
			if zzverif.Choose(tag+"."+k+".inf", 2) == 1 {
				w[k] = Infinite
			} else {
				w[k] = zzverif.Int(tag+"."+k, 1, 64)
			}
		}
	}
	return w, present
}

func kMax(a, b int) int {
	if a > b {
		return a
	}
	return b
}

// kNode builds node "n" with one rewrite edge per operand to distinct nodes.
func kNode(label string, nedges int) (*WeightedAuthorizationModelGraph, []*WeightedAuthorizationModelEdge) {
	wg := NewWeightedAuthorizationModelGraph()
	wg.AddNode("n", label, OperatorNode)
	for i := 0; i < nedges; i++ {
		t := fmt.Sprintf("doc#r%d", i)
		wg.AddNode(t, t, SpecificTypeAndRelation)
		wg.AddEdge("n", t, RewriteEdge, "", nil)
	}
	return wg, wg.edges["n"]
}

// VerifC04_KernelIntersection: keys = intersection over the operands, value =
// max, error iff no common key; every operand a single edge.
func VerifC04_KernelIntersection() {
	kKeys = kKeysAll[:zzverif.Param("KEYS", 2)]
	n := 2 + zzverif.Choose("operands", zzverif.Param("E", 2))
	wg, edges := kNode(IntersectionOperator, n)
	var pres []map[string]bool
	for i, e := range edges {
		w, p := kSymWeights(fmt.Sprintf("e%d", i))
		zzverif.Assume(len(w) > 0) // a resolved edge always carries a weight
		e.weights = w
		pres = append(pres, p)
	}
	err := wg.calculateNodeWeightWithEnforceTypeStrategy("n")
	common := 0
	for _, k := range kKeys {
		all := true
		for _, p := range pres {
			all = all && p[k]
		}
		if all {
			common++
		}
	}
	zzverif.Assert((err != nil) == (common == 0), "error-iff-no-common-type")
	if err != nil {
		zzverif.Reach("rejected")
		return
	}
	zzverif.Reach("accepted")
	got := wg.nodes["n"].weights
	for _, k := range kKeys {
		all := true
		for _, p := range pres {
			all = all && p[k]
		}
		v, ok := got[k]
		zzverif.Assert(ok == all, "key-present-iff-in-every-operand")
		if ok && all {
			want := edges[0].weights[k]
			for _, e := range edges[1:] {
				want = kMaxSym(want, e.weights[k])
			}
			zzverif.Assert(v == want, "value-is-max-over-operands")
		}
	}
}

// kMaxSym is max without a Go branch on a symbolic comparison.
func kMaxSym(a, b int) int {
	if zzverif.Symbolic() {
		return zzverif.MaxInt(a, b)
	}
	return kMax(a, b)
}

// VerifC04_KernelUnion: keys = union, value = max.
func VerifC04_KernelUnion() {
	kKeys = kKeysAll[:zzverif.Param("KEYS", 3)]
	n := 1 + zzverif.Choose("operands", zzverif.Param("E", 3))
	label := UnionOperator
	wg, edges := kNode(label, n)
	var pres []map[string]bool
	for i, e := range edges {
		w, p := kSymWeights(fmt.Sprintf("e%d", i))
		e.weights = w
		pres = append(pres, p)
	}
	err := wg.calculateNodeWeightWithMaxStrategy("n")
	zzverif.Assert(err == nil, "union-accepted")
	got := wg.nodes["n"].weights
	for _, k := range kKeys {
		any := false
		want := 0
		for i, p := range pres {
			if p[k] {
				if !any {
					want = edges[i].weights[k]
				} else {
					want = kMaxSym(want, edges[i].weights[k])
				}
				any = true
			}
		}
		v, ok := got[k]
		zzverif.Assert(ok == any, "key-present-iff-in-some-operand")
		if ok && any {
			zzverif.Assert(v == want, "value-is-max-over-operands")
		}
	}
	zzverif.Reach("checked")
}

// VerifC04_KernelExclusion: keys = keys of the base, the subtract operand never
// adds a key; value = max over both where the base has the key.
func VerifC04_KernelExclusion() {
	kKeys = kKeysAll[:zzverif.Param("KEYS", 3)]
	wg, edges := kNode(ExclusionOperator, 2)
	bw, bp := kSymWeights("base")
	sw, sp := kSymWeights("subtract")
	zzverif.Assume(len(bw) > 0 && len(sw) > 0)
	edges[0].weights, edges[1].weights = bw, sw
	err := wg.calculateNodeWeightWithMixedStrategy("n")
	zzverif.Assert(err == nil, "exclusion-accepted")
	got := wg.nodes["n"].weights
	for _, k := range kKeys {
		v, ok := got[k]
		zzverif.Assert(ok == bp[k], "key-present-iff-in-base")
		if ok && bp[k] {
			want := bw[k]
			if sp[k] {
				want = kMaxSym(want, sw[k])
			}
			zzverif.Assert(v == want, "value-is-max-of-base-and-subtract")
		}
	}
	zzverif.Reach("checked")
}

// VerifC04_KernelEdge: an edge copies its target's weights, +1 on direct and
// tuple-to-userset edges unless Infinite.
func VerifC04_KernelEdge() {
	kKeys = kKeysAll[:zzverif.Param("KEYS", 3)]
	wg := NewWeightedAuthorizationModelGraph()
	wg.AddNode("doc#a", "doc#a", SpecificTypeAndRelation)
	wg.AddNode("doc#b", "doc#b", SpecificTypeAndRelation)
	kinds := []EdgeType{DirectEdge, RewriteEdge, TTUEdge, ComputedEdge}
	kind := kinds[zzverif.Choose("kind", 4)]
	wg.AddEdge("doc#a", "doc#b", kind, "", nil)
	e := wg.edges["doc#a"][0]
	w, p := kSymWeights("target")
	zzverif.Assume(len(w) > 0)
	wg.nodes["doc#b"].weights = w
	visited := map[string]bool{"doc#b": true}
	tc, err := wg.calculateEdgeWeight(e, nil, visited, map[string][]*WeightedAuthorizationModelEdge{})
	zzverif.Assert(err == nil && len(tc) == 0, "edge-to-resolved-node")
	for _, k := range kKeys {
		v, ok := e.weights[k]
		zzverif.Assert(ok == p[k], "edge-key-iff-target-key")
		if ok && p[k] {
			want := w[k]
			if (kind == DirectEdge || kind == TTUEdge) && zzverif.Choose("recheck", 1) == 0 {
				want = kPlusHop(w[k])
			}
			zzverif.Assert(v == want, "edge-value-is-target-plus-hop")
		}
	}
	zzverif.Reach("checked")
}

func kPlusHop(v int) int {
	if zzverif.Symbolic() {
		return zzverif.IteInt(v == Infinite, v, v+1)
	}
	if v == Infinite {
		return v
	}
	return v + 1
}

// VerifC10_PublicAPI: the public construction and reading API of the weighted graph on symbolic condition names:
// UpsertEdge keeps one edge per (target, kind, tupleset label) with the ordered set of condition names ("none" for
// unconditioned, no duplicates), HasEdge finds exactly those, and every getter returns what the builder stored.
func VerifC10_PublicAPI() {
	wg := NewWeightedAuthorizationModelGraph()
	from := wg.GetOrAddNode("doc#viewer", "doc#viewer", SpecificTypeAndRelation)
	to := wg.GetOrAddNode("user", "user", SpecificType)
	other := wg.GetOrAddNode("doc#editor", "doc#editor", SpecificTypeAndRelation)
	zzverif.Assert(wg.GetOrAddNode("user", "user", SpecificType) == to, "node-per-unique-label")
	var want []string
	n := 1 + zzverif.Choose("upserts", 3)
	for i := 0; i < n; i++ {
		c := ""
		if zzverif.Choose("conditioned", 2) == 1 {
			c = zzverif.Str("condition", 1, 1, "ab")
		}
		zzverif.Assert(wg.UpsertEdge(from, to, DirectEdge, "", c) == nil, "upsert-succeeds")
		name := c
		if c == "" {
			name = NoCond
		}
		seen := false
		for _, w := range want {
			if w == name {
				seen = true
			}
		}
		if !seen {
			want = append(want, name)
		}
	}
	// an edge of another kind between the same two nodes is another edge
	zzverif.Assert(wg.UpsertEdge(from, to, ComputedEdge, "", "") == nil, "upsert-succeeds")
	zzverif.Assert(wg.UpsertEdge(from, other, TTUEdge, "doc#parent", "") == nil, "upsert-succeeds")
	zzverif.Assert(wg.UpsertEdge(nil, to, DirectEdge, "", "") != nil, "upsert-without-node-is-an-error")
	edges, ok := wg.GetEdgesFromNode(from)
	zzverif.Assert(ok && len(edges) == 3, "one-edge-per-target-kind-and-tupleset")
	if !ok || len(edges) != 3 {
		return
	}
	e := edges[0]
	zzverif.Assert(len(e.GetConditions()) == len(want), "conditions-are-an-ordered-set")
	for i := range want {
		if i < len(e.GetConditions()) {
			zzverif.Assert(e.GetConditions()[i] == want[i], "conditions-are-an-ordered-set")
		}
	}
	zzverif.Assert(e.GetFrom() == from && e.GetTo() == to && e.GetEdgeType() == DirectEdge && e.GetTuplesetRelation() == "", "edge-getters")
	zzverif.Assert(edges[1].GetTo() == to && edges[1].GetEdgeType() == ComputedEdge && len(edges[1].GetConditions()) == 1, "edge-getters")
	zzverif.Assert(edges[2].GetTo() == other && edges[2].GetEdgeType() == TTUEdge && edges[2].GetTuplesetRelation() == "doc#parent", "edge-getters")
	zzverif.Assert(wg.HasEdge(from, to, DirectEdge, "") && wg.HasEdge(from, other, TTUEdge, "doc#parent"), "has-edge-finds-what-was-added")
	zzverif.Assert(!wg.HasEdge(from, to, TTUEdge, "") && !wg.HasEdge(from, other, TTUEdge, "doc#p") && !wg.HasEdge(to, from, DirectEdge, "") && !wg.HasEdge(nil, to, DirectEdge, ""), "has-edge-finds-nothing-else")
	nd, found := wg.GetNodeByID("doc#viewer")
	zzverif.Assert(found && nd == from && nd.GetLabel() == "doc#viewer" && nd.GetNodeType() == SpecificTypeAndRelation, "node-getters")
	_, found = wg.GetNodeByID("doc#nobody")
	zzverif.Assert(!found, "node-getters")
	zzverif.Assert(len(wg.GetNodes()) == 3 && len(wg.GetEdges()) == 1, "graph-getters")
	// weights and wildcards through the getters after AssignWeights
	if err := wg.AssignWeights(); err == nil {
		w, okW := from.GetWeight("user")
		zzverif.Assert(okW && w == 1 && len(from.GetWeights()) >= 1, "weight-getters")
		ew, okE := e.GetWeight("user")
		zzverif.Assert(okE && ew == 1 && len(e.GetWeights()) == 1 && len(e.GetWildcards()) == 0 && len(from.GetWildcards()) == 0, "weight-getters")
	}
	zzverif.Reach("checked")
}
