package transformer

// The JSON string API (C01 "through the JSON string API", C08 "a syntax error is
// always reported through the returned error", C14 "across JSON encodings"):
// TransformDSLToProto / TransformDSLToJSON / LoadJSONStringToProto /
// TransformJSONStringToDSL are executed as they are.  What they call is stubbed
// under the executor and real natively:
//
//   - ParseDSL (per job redirect)  -> real listener over the generated parse tree of
//     the current document (parser stub of tree.go); the stub asserts that the text it
//     is handed is the text of that document;
//   - protojson.Marshal            -> an opaque key that stands for "the JSON text of
//     this message" (the message is recorded);
//   - UnmarshalOptions.Unmarshal   -> the recorded message, structurally copied with
//     protojson's normalisations (empty list / empty map -> absent); any other text is
//     a decoding error.
//
// Every replayed witness and path sample runs the same harness with the real
// parser and the real protojson, which validates the two contracts.

import (
	"errors"
	"fmt"
	"strings"

	openfgav1 "github.com/openfga/api/proto/openfga/v1"
	"google.golang.org/protobuf/encoding/protojson"
	"google.golang.org/protobuf/proto"

	"github.com/openfga/language/pkg/go/zzverif"
)

//verif:redirect google.golang.org/protobuf/encoding/protojson.Marshal verifJSONMarshalStub
//verif:redirect (google.golang.org/protobuf/encoding/protojson.UnmarshalOptions).Unmarshal verifJSONUnmarshalStub

var (
	verifJSONTable []*openfgav1.AuthorizationModel
	verifCurDoc    *dDoc
)

const verifJSONKey = "{\"verif-json\":"

func verifJSONMarshalStub(m proto.Message) ([]byte, error) {
	zzverif.Stub("protojson.Marshal = an opaque text standing for the message (validated natively per witness)")
	am, ok := m.(*openfgav1.AuthorizationModel)
	if !ok {
		return nil, errors.New("verif stub: unexpected message type")
	}
	verifJSONTable = append(verifJSONTable, am)
	return []byte(fmt.Sprintf("%s%d}", verifJSONKey, len(verifJSONTable)-1)), nil
}

func verifJSONUnmarshalStub(_ protojson.UnmarshalOptions, b []byte, m proto.Message) error {
	zzverif.Stub("protojson.Unmarshal = structural copy of the marshalled message, empty lists/maps absent (validated natively per witness)")
	s := string(b)
	dst, ok := m.(*openfgav1.AuthorizationModel)
	if !ok || !strings.HasPrefix(s, verifJSONKey) {
		return errors.New("proto: syntax error (verif stub: not a marshalled model)")
	}
	k := 0
	for _, c := range s[len(verifJSONKey) : len(s)-1] {
		k = k*10 + int(c-'0')
	}
	src := verifJSONTable[k]
	dst.Id = src.GetId()
	dst.SchemaVersion = src.GetSchemaVersion()
	for _, td := range src.GetTypeDefinitions() {
		dst.TypeDefinitions = append(dst.TypeDefinitions, verifCopyType(td))
	}
	for n, c := range src.GetConditions() {
		if dst.Conditions == nil {
			dst.Conditions = map[string]*openfgav1.Condition{}
		}
		dst.Conditions[n] = verifCopyCondition(c)
	}
	return nil
}

func verifCopySource(s *openfgav1.SourceInfo) *openfgav1.SourceInfo {
	if s == nil {
		return nil
	}
	return &openfgav1.SourceInfo{File: s.GetFile()}
}

func verifCopyType(td *openfgav1.TypeDefinition) *openfgav1.TypeDefinition {
	if td == nil {
		return nil
	}
	out := &openfgav1.TypeDefinition{Type: td.GetType()}
	for n, u := range td.GetRelations() {
		if out.Relations == nil {
			out.Relations = map[string]*openfgav1.Userset{}
		}
		out.Relations[n] = verifCopyUserset(u)
	}
	if md := td.GetMetadata(); md != nil {
		out.Metadata = &openfgav1.Metadata{Module: md.GetModule(), SourceInfo: verifCopySource(md.GetSourceInfo())}
		for n, rm := range md.GetRelations() {
			if out.Metadata.Relations == nil {
				out.Metadata.Relations = map[string]*openfgav1.RelationMetadata{}
			}
			if rm == nil {
				out.Metadata.Relations[n] = nil
				continue
			}
			c := &openfgav1.RelationMetadata{Module: rm.GetModule(), SourceInfo: verifCopySource(rm.GetSourceInfo())}
			for _, r := range rm.GetDirectlyRelatedUserTypes() {
				ref := &openfgav1.RelationReference{Type: r.GetType(), Condition: r.GetCondition()}
				switch x := r.GetRelationOrWildcard().(type) {
				case *openfgav1.RelationReference_Relation:
					ref.RelationOrWildcard = &openfgav1.RelationReference_Relation{Relation: x.Relation}
				case *openfgav1.RelationReference_Wildcard:
					ref.RelationOrWildcard = &openfgav1.RelationReference_Wildcard{Wildcard: &openfgav1.Wildcard{}}
				}
				c.DirectlyRelatedUserTypes = append(c.DirectlyRelatedUserTypes, ref)
			}
			out.Metadata.Relations[n] = c
		}
	}
	return out
}

func verifCopyUserset(u *openfgav1.Userset) *openfgav1.Userset {
	if u == nil {
		return nil
	}
	kids := func(cs []*openfgav1.Userset) []*openfgav1.Userset {
		var out []*openfgav1.Userset
		for _, c := range cs {
			out = append(out, verifCopyUserset(c))
		}
		return out
	}
	switch x := u.GetUserset().(type) {
	case *openfgav1.Userset_This:
		return &openfgav1.Userset{Userset: &openfgav1.Userset_This{This: &openfgav1.DirectUserset{}}}
	case *openfgav1.Userset_ComputedUserset:
		return &openfgav1.Userset{Userset: &openfgav1.Userset_ComputedUserset{ComputedUserset: &openfgav1.ObjectRelation{Object: x.ComputedUserset.GetObject(), Relation: x.ComputedUserset.GetRelation()}}}
	case *openfgav1.Userset_TupleToUserset:
		return &openfgav1.Userset{Userset: &openfgav1.Userset_TupleToUserset{TupleToUserset: &openfgav1.TupleToUserset{
			Tupleset:        &openfgav1.ObjectRelation{Object: x.TupleToUserset.GetTupleset().GetObject(), Relation: x.TupleToUserset.GetTupleset().GetRelation()},
			ComputedUserset: &openfgav1.ObjectRelation{Object: x.TupleToUserset.GetComputedUserset().GetObject(), Relation: x.TupleToUserset.GetComputedUserset().GetRelation()}}}}
	case *openfgav1.Userset_Union:
		return &openfgav1.Userset{Userset: &openfgav1.Userset_Union{Union: &openfgav1.Usersets{Child: kids(x.Union.GetChild())}}}
	case *openfgav1.Userset_Intersection:
		return &openfgav1.Userset{Userset: &openfgav1.Userset_Intersection{Intersection: &openfgav1.Usersets{Child: kids(x.Intersection.GetChild())}}}
	case *openfgav1.Userset_Difference:
		return &openfgav1.Userset{Userset: &openfgav1.Userset_Difference{Difference: &openfgav1.Difference{Base: verifCopyUserset(x.Difference.GetBase()), Subtract: verifCopyUserset(x.Difference.GetSubtract())}}}
	}
	return &openfgav1.Userset{}
}

func verifCopyCondition(c *openfgav1.Condition) *openfgav1.Condition {
	if c == nil {
		return nil
	}
	out := &openfgav1.Condition{Name: c.GetName(), Expression: c.GetExpression()}
	var ref func(p *openfgav1.ConditionParamTypeRef) *openfgav1.ConditionParamTypeRef
	ref = func(p *openfgav1.ConditionParamTypeRef) *openfgav1.ConditionParamTypeRef {
		if p == nil {
			return nil
		}
		q := &openfgav1.ConditionParamTypeRef{TypeName: p.GetTypeName()}
		for _, g := range p.GetGenericTypes() {
			q.GenericTypes = append(q.GenericTypes, ref(g))
		}
		return q
	}
	for n, p := range c.GetParameters() {
		if out.Parameters == nil {
			out.Parameters = map[string]*openfgav1.ConditionParamTypeRef{}
		}
		out.Parameters[n] = ref(p)
	}
	if md := c.GetMetadata(); md != nil {
		out.Metadata = &openfgav1.ConditionMetadata{Module: md.GetModule(), SourceInfo: verifCopySource(md.GetSourceInfo())}
	}
	return out
}

// verifParseDSLStub replaces ParseDSL under the executor (per job redirect): the real
// listener over the generated tree of the current document.
func verifParseDSLStub(data string) (*OpenFgaDslListener, *OpenFgaDslErrorListener) {
	l, errs, b := verifParseDoc(verifCurDoc)
	zzverif.Assert(data == strings.Join(b.text, ""), "text-reaches-the-parser-unchanged")
	return l, &OpenFgaDslErrorListener{Errors: errs}
}

func verifDocText(d *dDoc) string {
	_, b := docTree(d)
	return strings.Join(b.text, "")
}

// VerifC01_JSONAPI: the string API end to end.  A rejected document yields an error
// and nothing else from both DSL entry points; an accepted one goes DSL -> JSON ->
// DSL -> JSON -> DSL and must render exactly as the direct hand-over does, with and
// without source information, and be byte-stable.
func VerifC01_JSONAPI() {
	d := genDoc()
	relDup, condDup, paramDup, badExtend, repeatedExtend := docDuplicates(d)
	bad := relDup || condDup || paramDup || badExtend || repeatedExtend
	text := verifDocText(d)
	verifCurDoc = d
	js, err := TransformDSLToJSON(text)
	m, errP := TransformDSLToProto(text)
	if bad {
		zzverif.Assert(err != nil && js == "", "rejected-document-gives-an-error-and-no-json")
		zzverif.Assert(errP != nil && m == nil, "rejected-document-gives-an-error-and-no-model")
		zzverif.Reach("rejected")
		return
	}
	zzverif.Assert(err == nil && errP == nil && m != nil, "valid-document-is-accepted")
	if err != nil || errP != nil || m == nil {
		return
	}
	if d.module != "" {
		// a module file has no schema version: it cannot be printed as a full model (property: model header)
		zzverif.Reach("module")
		return
	}
	withSrc := zzverif.Bool("include-source-information")
	direct, errD := TransformJSONProtoToDSL(m, WithIncludeSourceInformation(withSrc))
	dsl, errS := TransformJSONStringToDSL(js, WithIncludeSourceInformation(withSrc))
	zzverif.Assert(errD == nil && errS == nil && dsl != nil, "json-string-api-renders")
	if errD != nil || errS != nil || dsl == nil {
		return
	}
	zzverif.Assert(*dsl == direct, "json-string-api-renders-what-the-direct-hand-over-renders")
	loaded, errL := LoadJSONStringToProto(js)
	zzverif.Assert(errL == nil && loaded != nil, "json-loads")
	if errL != nil || loaded == nil {
		return
	}
	checkModelIsReading(d, loaded, nil)
	zzverif.Reach("rendered")
	// second trip: the rendering is the document of the model (asserted by VerifC01_RoundTrip), parse it through the string API
	d2 := docFromModel(m)
	d2.style = 2
	verifCurDoc = d2
	plain := direct
	if withSrc {
		plain, _ = TransformJSONProtoToDSL(m)
	}
	js2, err2 := TransformDSLToJSON(plain)
	zzverif.Assert(err2 == nil, "rendering-parses-through-the-string-api")
	if err2 != nil {
		return
	}
	dsl2, errS2 := TransformJSONStringToDSL(js2)
	zzverif.Assert(errS2 == nil && dsl2 != nil && *dsl2 == plain, "text-is-byte-stable-through-the-string-api")
	_, errBad := LoadJSONStringToProto("{\"type_definitions\": 5")
	zzverif.Assert(errBad != nil, "undecodable-json-is-an-error")
	zzverif.Reach("stable")
}

// VerifC14_JSONString: a modular model with symbolic attribution printed through the
// JSON string API gives the text of the direct hand-over, for both values of the
// option (the options must reach the printer).  Natively a second encoding of the same
// model (multi-line, proto field names) is printed as well.
func VerifC14_JSONString() {
	m := verifModularModel(zzverif.Param("N", 1))
	js, err := protojson.Marshal(m)
	zzverif.Assert(err == nil, "model-marshals")
	if err != nil {
		return
	}
	src := zzverif.Choose("source-info", 2) == 1
	direct, errD := TransformJSONProtoToDSL(m, WithIncludeSourceInformation(src))
	via, errS := TransformJSONStringToDSL(string(js), WithIncludeSourceInformation(src))
	zzverif.Assert(errD == nil && errS == nil && via != nil, "modular-model-prints")
	if errD != nil || errS != nil || via == nil {
		return
	}
	zzverif.Assert(*via == direct, "same-text-through-the-json-string-api")
	if !zzverif.Symbolic() {
		js2, err2 := protojson.MarshalOptions{Multiline: true, UseProtoNames: true}.Marshal(m)
		via2, errS2 := TransformJSONStringToDSL(string(js2), WithIncludeSourceInformation(src))
		zzverif.Assert(err2 == nil && errS2 == nil && via2 != nil && *via2 == direct, "same-text-for-another-json-encoding")
	}
	zzverif.Reach("printed")
}
