package transformer

// Listener harnesses on generated parse trees (parser stub, see tree.go):
//
//	C03  listener lemma: the model is exactly the direct reading of the tree,
//	     whatever optional layout tokens are present;
//	C09  listener-raised rejections: duplicates and misplaced extend are always
//	     reported, an accepted document reflects every declaration;
//	C16  the reported position is the name token of the offending declaration;
//	C01  DSL -> model -> DSL -> model round trip through the real printer.

import (
	"fmt"
	"strings"

	"github.com/antlr4-go/antlr/v4"
	"github.com/hashicorp/go-multierror"
	openfgav1 "github.com/openfga/api/proto/openfga/v1"

	"github.com/openfga/language/pkg/go/zzverif"
)

type exprGen struct {
	budget int
	leaf   int
	depth  int
}

func (g *exprGen) leafExpr(allowDirect bool) *dExpr {
	kinds := 2
	if allowDirect {
		kinds = 3
	}
	switch zzverif.Choose("leaf", kinds) {
	case 0:
		g.leaf++
		return &dExpr{kind: 1, name: fmt.Sprintf("r%d", g.leaf)}
	case 1:
		g.leaf++
		return &dExpr{kind: 2, name: fmt.Sprintf("r%d", g.leaf), from: fmt.Sprintf("p%d", g.leaf)}
	}
	return &dExpr{kind: 0, restr: verifRestrMenuDoc[zzverif.Choose("restrictions", len(verifRestrMenuDoc))]}
}

var verifRestrMenuDoc = [][]dRestr{
	{{typ: "user"}},
	{{typ: "user"}, {typ: "group", rel: "member"}},
	{{typ: "user", wildcard: true}, {typ: "user", cond: "c1"}},
	{{typ: "user", wildcard: true, cond: "c1"}, {typ: "group", rel: "member", cond: "c1"}},
}

// group: an expression with 1..3 operands; allowDirect says whether the first
// operand may be (or start with) a direct assignment.
func (g *exprGen) group(depth int, allowDirect bool, parens int) *dExpr {
	e := &dExpr{kind: 3, parens: parens}
	max := 3
	if g.budget < max {
		max = g.budget
	}
	if max < 1 {
		max = 1
	}
	n := 1 + zzverif.Choose("operands", max)
	if n > 1 {
		e.op = 1 + zzverif.Choose("op", 3)
		if e.op == 3 {
			n = 2
		}
	}
	for i := 0; i < n; i++ {
		g.budget--
		first := i == 0
		if depth > 0 && g.budget > 0 && zzverif.Choose("nested", 2) == 1 {
			e.operands = append(e.operands, g.group(depth-1, allowDirect && first, 1+zzverif.Choose("extra-parens", 2)))
		} else {
			e.operands = append(e.operands, g.leafExpr(allowDirect && first))
		}
	}
	return e
}

const verifIdentAlphabetDefault = "a-c_"

// verifIdentAlpha: the alphabet of generated names; CASE=1: names that differ in letter case only
func verifIdentAlpha() string {
	if zzverif.Param("CASE", 0) == 1 {
		return "aA"
	}
	return verifIdentAlphabetDefault
}

// genDoc: a model or module document with one relation under test (full
// shape), optional sibling relations / types / conditions with symbolic names.
// the condition expressions of the generated documents, as token texts
var verifExprMenu = [][]string{
	{"x", " ", "<", " ", "1"},
	{"x", " ", "<", "\n  ", "1"},
	{"x", " ", "%", " ", "2", " ", "==", " ", "0"},
	{"x", " ", "==", " ", "\"100%\"", " ", "&&", " ", "x", " ", "==", " ", "\"%s%d\""},
}

func genDoc() *dDoc {
	n := zzverif.Param("N", 2)
	d := &dDoc{schema: "1.1"}
	fixLayout := zzverif.Param("FIXLAYOUT", 0) == 1
	if !fixLayout {
		d.full = zzverif.Choose("layout", 2) == 1
	}
	if zzverif.Param("MODULES", 0) == 1 && zzverif.Choose("header", 2) == 1 {
		d.module = "m"
		if zzverif.Param("MODNAMES", 0) == 1 {
			// ordinary names and every keyword the grammar admits as an identifier
			d.module = []string{"m", "core-1", "model", "schema", "type", "relation", "module", "extend"}[zzverif.Choose("module-name", 8)]
		}
	}
	if zzverif.Param("NOTYPES", 0) == 1 && zzverif.Choose("no-types", 2) == 1 {
		// a document without any type (the grammar has typeDef*): header and conditions only
		genConds(d, n)
		return d
	}
	d.types = append(d.types, dType{name: "user"})
	g := &exprGen{budget: zzverif.Param("NODES", 4)}
	t := dType{name: zzverif.Str("type", 1, n, verifIdentAlpha())}
	if !fixLayout {
		t.comment = zzverif.Choose("comment", 2) == 1
	}
	if zzverif.Param("EXTEND", 0) == 1 {
		t.extend = zzverif.Choose("extend", 2) == 1
	}
	var expr *dExpr
	if chain := zzverif.Param("CHAIN", 0); chain > 0 {
		// a long flat chain with one parenthesised group at a chosen position
		k := 1 + zzverif.Choose("chain-length", chain)
		at := zzverif.Choose("group-at", k)
		expr = &dExpr{kind: 3, op: 1 + zzverif.Choose("op", 2)}
		for i := 0; i < k; i++ {
			g.leaf++
			if i == at && i > 0 {
				inner := &dExpr{kind: 3, op: 1 + zzverif.Choose("inner-op", 2), parens: 1}
				for j := 0; j < 2; j++ {
					g.leaf++
					inner.operands = append(inner.operands, &dExpr{kind: 1, name: fmt.Sprintf("r%d", g.leaf)})
				}
				expr.operands = append(expr.operands, inner)
			} else {
				expr.operands = append(expr.operands, &dExpr{kind: 1, name: fmt.Sprintf("r%d", g.leaf)})
			}
		}
		if k == 1 {
			expr.op = 0
		}
	} else {
		expr = g.group(zzverif.Param("DEPTH", 1), true, 0)
	}
	t.rels = append(t.rels, dRel{name: zzverif.Str("rel", 1, n, verifIdentAlpha()), expr: expr})
	for i := 0; i < zzverif.Param("SIBLINGS", 1); i++ {
		if zzverif.Choose("sibling", 2) == 1 {
			t.rels = append(t.rels, dRel{name: zzverif.Str("rel", 1, n, verifIdentAlpha()), expr: &dExpr{kind: 3, operands: []*dExpr{{kind: 1, name: "other"}}}})
		}
	}
	d.types = append(d.types, t)
	if zzverif.Param("EXTEND", 0) == 1 && zzverif.Choose("second-extend", 2) == 1 {
		d.types = append(d.types, dType{name: zzverif.Str("type", 1, n, verifIdentAlpha()), extend: true,
			rels: []dRel{{name: "x", expr: &dExpr{kind: 3, operands: []*dExpr{{kind: 1, name: "other"}}}}}})
	}
	genConds(d, n)
	return d
}

func genConds(d *dDoc, n int) {
	nc := zzverif.Choose("conditions", zzverif.Param("CONDS", 1)+1)
	for i := 0; i < nc; i++ {
		c := dCond{name: zzverif.Str("cond", 1, n, verifIdentAlpha()), expr: []string{"x", " ", "<", " ", "1"}}
		if zzverif.Param("EXPRS", 0) == 2 && zzverif.Choose("missing-closing-brace", 2) == 1 {
			// the closing brace of this condition is missing: the expression runs on over the declaration of the next one
			c.expr = []string{"x", " ", "<", " ", "1", "\n\n", "condition", " ", "c2", "(", "y", ":", " ", "int", ")", " ", "{", "\n  ", "y", " ", "<", " ", "2"}
			c.swallows = true
		}
		if zzverif.Param("EXPRS", 0) == 1 {
			switch k := zzverif.Choose("expression-layout", 6); k {
			case 1:
				c.expr = verifExprMenu[1] // wrapped over two lines
			case 2:
				c.expr = verifExprMenu[1]
				c.closeSameLine = true // closing brace on the last expression line
			case 3:
				c.closeSameLine = true
			case 4, 5:
				// percent signs in the expression (printf-style formatting of the text must not interpret them)
				c.expr = verifExprMenu[k-2]
			}
		}
		np := zzverif.Param("PARAMS", 0)
		if np == 0 {
			np = 1 + zzverif.Choose("params", 2)
		}
		types := []dParam{{typ: "int"}, {typ: "string", container: "list"}}
		if zzverif.Param("PTYPES", 0) == 1 {
			// every parameter type and every container/element combination
			scalars := []string{"bool", "string", "int", "uint", "double", "duration", "timestamp", "ipaddress"}
			types[0] = dParam{typ: scalars[zzverif.Choose("scalar", len(scalars))]}
			types[1] = dParam{typ: scalars[zzverif.Choose("element", len(scalars))], container: []string{"list", "map"}[zzverif.Choose("container", 2)]}
		}
		for j := 0; j < np; j++ {
			p := types[j]
			p.name = zzverif.Str("param", 1, 1, "x-y")
			c.params = append(c.params, p)
		}
		d.conds = append(d.conds, c)
	}
}

// docDuplicates: the listener-level rule violations of the document.
func docDuplicates(d *dDoc) (relDup, condDup, paramDup, badExtend, repeatedExtend bool) {
	ext := []string{}
	for _, t := range d.types {
		for i := range t.rels {
			for j := 0; j < i; j++ {
				if t.rels[i].name == t.rels[j].name {
					relDup = true
				}
			}
		}
		if t.extend {
			if d.module == "" {
				badExtend = true
			}
			for _, e := range ext {
				if e == t.name {
					repeatedExtend = true
				}
			}
			ext = append(ext, t.name)
		}
	}
	for i := range d.conds {
		for j := 0; j < i; j++ {
			if d.conds[i].name == d.conds[j].name {
				condDup = true
			}
		}
		ps := d.conds[i].params
		for a := range ps {
			for b := 0; b < a; b++ {
				if ps[a].name == ps[b].name {
					paramDup = true
				}
			}
		}
	}
	return
}

var verifParamTypes = map[string]openfgav1.ConditionParamTypeRef_TypeName{"int": openfgav1.ConditionParamTypeRef_TYPE_NAME_INT,
	"string": openfgav1.ConditionParamTypeRef_TYPE_NAME_STRING, "list": openfgav1.ConditionParamTypeRef_TYPE_NAME_LIST, "map": openfgav1.ConditionParamTypeRef_TYPE_NAME_MAP,
	"bool": openfgav1.ConditionParamTypeRef_TYPE_NAME_BOOL, "uint": openfgav1.ConditionParamTypeRef_TYPE_NAME_UINT, "double": openfgav1.ConditionParamTypeRef_TYPE_NAME_DOUBLE,
	"duration": openfgav1.ConditionParamTypeRef_TYPE_NAME_DURATION, "timestamp": openfgav1.ConditionParamTypeRef_TYPE_NAME_TIMESTAMP, "ipaddress": openfgav1.ConditionParamTypeRef_TYPE_NAME_IPADDRESS}

var verifParamNames = map[openfgav1.ConditionParamTypeRef_TypeName]string{}

// checkModelIsReading asserts that model m is exactly what document d says.
func checkModelIsReading(d *dDoc, m *openfgav1.AuthorizationModel, ext map[string]*openfgav1.TypeDefinition) {
	if d.module == "" {
		zzverif.Assert(m.GetSchemaVersion() == d.schema, "schema-version")
	}
	zzverif.Assert(len(m.GetTypeDefinitions()) == len(d.types), "types-in-order")
	if len(m.GetTypeDefinitions()) != len(d.types) {
		return
	}
	for i, t := range d.types {
		td := m.GetTypeDefinitions()[i]
		zzverif.Assert(td.GetType() == t.name, "types-in-order")
		zzverif.Assert(len(td.GetRelations()) == len(t.rels), "every-relation-declaration-is-reflected")
		if d.module != "" {
			zzverif.Assert(td.GetMetadata().GetModule() == d.module, "type-carries-module")
		}
		for _, r := range t.rels {
			u, ok := td.GetRelations()[r.name]
			zzverif.Assert(ok, "every-relation-declaration-is-reflected")
			if !ok {
				continue
			}
			var restr []*openfgav1.RelationReference
			want := semExpr(r.expr, &restr)
			zzverif.Assert(verifSameUserset(u, want), "rewrite-operand-order-and-nesting-preserved")
			md := td.GetMetadata().GetRelations()[r.name]
			zzverif.Assert(md != nil && verifSameRestrictions(md.GetDirectlyRelatedUserTypes(), restr), "type-restrictions-in-order")
			if d.module != "" && t.extend {
				zzverif.Assert(md.GetModule() == d.module, "extension-relation-carries-module")
			}
		}
		if t.extend && d.module != "" {
			zzverif.Assert(ext[t.name] == td, "extension-is-registered")
		}
	}
	zzverif.Assert(len(m.GetConditions()) == len(d.conds), "every-condition-is-reflected")
	for _, c := range d.conds {
		cd := m.GetConditions()[c.name]
		zzverif.Assert(cd != nil && cd.GetName() == c.name, "every-condition-is-reflected")
		if cd == nil {
			continue
		}
		zzverif.Assert(verifSquash(cd.GetExpression()) == verifSquash(strings.Join(c.expr, "")), "expression-text-modulo-whitespace")
		// exactly the expression as written: the layout in front of the closing brace is not part of it
		zzverif.Assert(cd.GetExpression() == strings.Join(c.expr, ""), "expression-text-is-what-was-written")
		zzverif.Assert(len(cd.GetParameters()) == len(c.params), "every-parameter-is-reflected")
		for _, p := range c.params {
			ref := cd.GetParameters()[p.name]
			zzverif.Assert(ref != nil, "every-parameter-is-reflected")
			if ref == nil {
				continue
			}
			if p.container != "" {
				zzverif.Assert(ref.GetTypeName() == verifParamTypes[p.container] && len(ref.GetGenericTypes()) == 1 && ref.GetGenericTypes()[0].GetTypeName() == verifParamTypes[p.typ], "parameter-types")
			} else {
				zzverif.Assert(ref.GetTypeName() == verifParamTypes[p.typ], "parameter-types")
			}
		}
	}
}

// VerifListener_Doc: C03 + C09 + C16(c).
func VerifListener_Doc() {
	d := genDoc()
	l, errs, b := verifParseDoc(d)
	relDup, condDup, paramDup, badExtend, repeatedExtend := docDuplicates(d)
	bad := relDup || condDup || paramDup || badExtend || repeatedExtend
	for _, c := range d.conds {
		if c.swallows {
			// a declaration that stands in the document and is not reflected in the model: the document must not be accepted
			bad = true
			zzverif.Class("rejected-iff-a-listener-rule-is-broken", "condition declaration swallowed by an expression without closing brace")
		}
	}
	zzverif.Assert((errs != nil) == bad, "rejected-iff-a-listener-rule-is-broken")
	if errs != nil {
		zzverif.Reach("rejected")
		if !bad {
			return
		}
		// every error sits on the name token of a declaration (C16)
		for _, e := range errs.Errors {
			se, ok := e.(*OpenFgaDslSyntaxError)
			zzverif.Assert(ok, "error-type")
			if !ok {
				continue
			}
			hit := false
			for _, t := range b.names {
				if zzverif.And(se.line == t.GetLine()-1, se.column == t.GetColumn()) {
					hit = true
				}
			}
			zzverif.Assert(hit, "error-position-is-a-declared-name")
			zzverif.Assert(se.line >= 0 && se.line < b.line, "error-line-inside-the-input")
		}
		return
	}
	zzverif.Reach("accepted")
	checkModelIsReading(d, &l.authorizationModel, l.typeDefExtensions)
}

// ---- C01

// docFromModel: the document the printer writes for m (canonical layout,
// relations and conditions by name, nested operators in one pair of parentheses).
func docFromModel(m *openfgav1.AuthorizationModel) *dDoc {
	d := &dDoc{schema: m.GetSchemaVersion()}
	var conv func(u *openfgav1.Userset, restr []*openfgav1.RelationReference, top bool) *dExpr
	conv = func(u *openfgav1.Userset, restr []*openfgav1.RelationReference, top bool) *dExpr {
		wrap := func(op int, cs []*openfgav1.Userset) *dExpr {
			e := &dExpr{kind: 3, op: op}
			if !top {
				e.parens = 1
			}
			for _, c := range verifHoist(cs) {
				e.operands = append(e.operands, conv(c, restr, false))
			}
			return e
		}
		switch x := u.GetUserset().(type) {
		case *openfgav1.Userset_This:
			e := &dExpr{kind: 0}
			for _, r := range restr {
				e.restr = append(e.restr, dRestr{typ: r.GetType(), wildcard: r.GetWildcard() != nil, rel: r.GetRelation(), cond: r.GetCondition()})
			}
			return e
		case *openfgav1.Userset_ComputedUserset:
			return &dExpr{kind: 1, name: x.ComputedUserset.GetRelation()}
		case *openfgav1.Userset_TupleToUserset:
			return &dExpr{kind: 2, name: x.TupleToUserset.GetComputedUserset().GetRelation(), from: x.TupleToUserset.GetTupleset().GetRelation()}
		case *openfgav1.Userset_Union:
			return wrap(1, x.Union.GetChild())
		case *openfgav1.Userset_Intersection:
			return wrap(2, x.Intersection.GetChild())
		case *openfgav1.Userset_Difference:
			e := &dExpr{kind: 3, op: 3}
			if !top {
				e.parens = 1
			}
			e.operands = []*dExpr{conv(x.Difference.GetBase(), restr, false), conv(x.Difference.GetSubtract(), restr, false)}
			return e
		}
		return &dExpr{kind: 1, name: "?"}
	}
	for _, td := range m.GetTypeDefinitions() {
		t := dType{name: td.GetType()}
		var names []string
		for n := range td.GetRelations() {
			names = append(names, n)
		}
		mSortStrings(names)
		for _, n := range names {
			e := conv(td.GetRelations()[n], td.GetMetadata().GetRelations()[n].GetDirectlyRelatedUserTypes(), true)
			if e.kind != 3 {
				e = &dExpr{kind: 3, operands: []*dExpr{e}}
			}
			t.rels = append(t.rels, dRel{name: n, expr: e})
		}
		d.types = append(d.types, t)
	}
	var cnames []string
	for n := range m.GetConditions() {
		cnames = append(cnames, n)
	}
	mSortStrings(cnames)
	for _, n := range cnames {
		c := m.GetConditions()[n]
		dc := dCond{name: n, expr: []string{"x", " ", "<", " ", "1"}}
		for _, pieces := range verifExprMenu {
			if strings.Join(pieces, "") == c.GetExpression() {
				dc.expr = pieces
			}
		}
		var pn []string
		for p := range c.GetParameters() {
			pn = append(pn, p)
		}
		mSortStrings(pn)
		for _, p := range pn {
			ref := c.GetParameters()[p]
			nameOf := func(t openfgav1.ConditionParamTypeRef_TypeName) string {
				for n, v := range verifParamTypes {
					if v == t {
						return n
					}
				}
				return "?"
			}
			if len(ref.GetGenericTypes()) > 0 {
				dc.params = append(dc.params, dParam{name: p, typ: nameOf(ref.GetGenericTypes()[0].GetTypeName()), container: nameOf(ref.GetTypeName())})
			} else {
				dc.params = append(dc.params, dParam{name: p, typ: nameOf(ref.GetTypeName())})
			}
		}
		d.conds = append(d.conds, dc)
	}
	return d
}

// VerifC01_RoundTrip: DSL -> model (listener) -> DSL (printer) -> model -> DSL.
func VerifC01_RoundTrip() {
	d := genDoc()
	relDup, condDup, paramDup, badExtend, repeatedExtend := docDuplicates(d)
	zzverif.Assume(!(relDup || condDup || paramDup || badExtend || repeatedExtend))
	l, errs, _ := verifParseDoc(d)
	zzverif.Assert(errs == nil, "valid-document-is-accepted")
	if errs != nil {
		return
	}
	m := &l.authorizationModel
	// the first model is the document (also guards the printer against a malformed, e.g. cyclic, model)
	checkModelIsReading(d, m, l.typeDefExtensions)
	if zzverif.Failed() {
		return
	}
	text, err := TransformJSONProtoToDSL(m)
	zzverif.Assert(err == nil, "model-from-the-parser-renders-directly")
	if err != nil {
		return
	}
	zzverif.Reach("rendered")
	// the rendering is the printer layout of the canonical document of m ...
	d2 := docFromModel(m)
	d2.style = 2
	l2, errs2, b2 := verifParseDoc(d2)
	zzverif.Assert(strings.Join(b2.text, "") == text, "rendering-is-the-canonical-document")
	// ... and parsing it gives the first model back
	zzverif.Assert(errs2 == nil, "rendering-parses")
	if errs2 != nil {
		return
	}
	checkModelIsReading(d2, &l2.authorizationModel, nil)
	m2 := &l2.authorizationModel
	zzverif.Assert(len(m2.GetTypeDefinitions()) == len(m.GetTypeDefinitions()), "second-model-equals-first")
	for i, td := range m.GetTypeDefinitions() {
		if i >= len(m2.GetTypeDefinitions()) {
			break
		}
		td2 := m2.GetTypeDefinitions()[i]
		zzverif.Assert(td.GetType() == td2.GetType() && len(td.GetRelations()) == len(td2.GetRelations()), "second-model-equals-first")
		for n, u := range td.GetRelations() {
			u2, ok := td2.GetRelations()[n]
			zzverif.Assert(ok && verifSameUserset(verifNormalise(u), u2), "second-model-equals-first")
			zzverif.Assert(ok && verifSameRestrictions(td.GetMetadata().GetRelations()[n].GetDirectlyRelatedUserTypes(), td2.GetMetadata().GetRelations()[n].GetDirectlyRelatedUserTypes()) || verifCountThis(u) == 0, "second-model-equals-first")
		}
	}
	text2, err2 := TransformJSONProtoToDSL(m2)
	zzverif.Assert(err2 == nil && text2 == text, "text-is-byte-stable")
	zzverif.Reach("stable")
}

// verifNormalise: the direct assignment hoisted (what one round trip does).
func verifNormalise(u *openfgav1.Userset) *openfgav1.Userset {
	norm := func(cs []*openfgav1.Userset) []*openfgav1.Userset {
		var out []*openfgav1.Userset
		for _, c := range verifHoist(cs) {
			out = append(out, verifNormalise(c))
		}
		return out
	}
	switch x := u.GetUserset().(type) {
	case *openfgav1.Userset_Union:
		return &openfgav1.Userset{Userset: &openfgav1.Userset_Union{Union: &openfgav1.Usersets{Child: norm(x.Union.GetChild())}}}
	case *openfgav1.Userset_Intersection:
		return &openfgav1.Userset{Userset: &openfgav1.Userset_Intersection{Intersection: &openfgav1.Usersets{Child: norm(x.Intersection.GetChild())}}}
	case *openfgav1.Userset_Difference:
		return &openfgav1.Userset{Userset: &openfgav1.Userset_Difference{Difference: &openfgav1.Difference{Base: verifNormalise(x.Difference.GetBase()), Subtract: verifNormalise(x.Difference.GetSubtract())}}}
	}
	return u
}

// verifSquash removes blanks and line breaks (expression text is compared modulo whitespace).
func verifSquash(s string) string {
	return strings.ReplaceAll(strings.ReplaceAll(s, " ", ""), "\n", "")
}

// VerifC16_SyntaxError: whatever the parser or the lexer reports - with or
// without an offending token - is recorded with line-1 and the same column.
func VerifC16_SyntaxError() {
	el := newOpenFgaDslErrorListener()
	line := zzverif.Int("line", 1, 1000000)
	col := zzverif.Int("column", 0, 1000000)
	var sym interface{}
	switch zzverif.Choose("offending-symbol", 3) {
	case 1:
		sym = antlr.CommonTokenFactoryDEFAULT.Create(&antlr.TokenSourceCharStreamPair{}, 1, "x", antlr.TokenDefaultChannel, 0, 0, 1, 0)
	case 2:
		sym = "not a token"
	}
	el.SyntaxError(nil, sym, line, col, "message", nil)
	zzverif.Assert(el.Errors != nil && len(el.Errors.Errors) == 1, "every-reported-syntax-error-is-recorded")
	if el.Errors == nil || len(el.Errors.Errors) != 1 {
		return
	}
	se, ok := el.Errors.Errors[0].(*OpenFgaDslSyntaxError)
	zzverif.Assert(ok, "error-type")
	if ok {
		zzverif.Assert(zzverif.And(se.line == line-1, se.column == col), "stored-position-is-line-minus-one-and-column")
		zzverif.Assert(se.msg == "message", "message-kept")
	}
	zzverif.Reach("recorded")
}

// VerifC08_ListenerRecovery: error-recovery shapes - a required part is missing
// from the text, and from the tree the walker hands to the listener.  The tree
// is an over-approximation of what the parser's recovery builds; only what
// reproduces natively (real parser on the text) counts.  Monitor: no panic; and
// a model is never returned together with ... nothing: with the part missing
// the parser has reported a syntax error, so the transform must fail.
func VerifC08_ListenerRecovery() {
	d := genDoc()
	d.omit = []string{"module-name", "schema-version", "type-name", "relation-name", "relation-def", "condition-name", "param-type", "param-colon-type"}[zzverif.Choose("missing", 8)]
	if d.omit == "module-name" {
		d.module = "m"
	}
	l, _, _ := verifParseDoc(d)
	_ = l
	zzverif.Reach("walked")
}

// VerifC16_ErrorTexts: the texts of the error types carry the position and the message they were given (the
// position is what callers print), and the multi-error text counts its items.
func VerifC16_ErrorTexts() {
	line := []int{0, 7, 120}[zzverif.Choose("line", 3)]
	col := []int{0, 3, 4096}[zzverif.Choose("column", 3)]
	se := &OpenFgaDslSyntaxError{line: line, column: col, msg: "m"}
	zzverif.Assert(se.Error() == fmt.Sprintf("syntax error at line=%d, column=%d: m", line, col), "syntax-error-text-carries-line-and-column")
	me := &ModuleTransformationSingleError{Msg: "m"}
	me.Line.Start, me.Column.Start = line, col
	zzverif.Assert(me.Error() == fmt.Sprintf("transformation error at line=%d, column=%d: m", line, col), "merge-error-text-carries-line-and-column")
	fe := &ModFileValidationError{Msg: "m", Line: line, Column: col}
	zzverif.Assert(fe.Error() == fmt.Sprintf("validation error at line=%d, column=%d: m", line, col), "mod-file-error-text-carries-line-and-column")
	n := 1 + zzverif.Choose("errors", 2)
	var items []error
	for i := 0; i < n; i++ {
		items = append(items, se)
	}
	multi := (*OpenFgaDslSyntaxMultipleError)(&multierror.Error{Errors: items})
	zzverif.Assert(strings.HasPrefix(multi.Error(), fmt.Sprintf("%d error", n)) && strings.Count(multi.Error(), "syntax error at") == n, "multi-error-text-lists-every-item")
	mm := (*ModuleValidationMultipleError)(&multierror.Error{Errors: []error{me}})
	zzverif.Assert(strings.Contains(mm.Error(), me.Error()), "multi-error-text-lists-every-item")
	fm := (*ModFileValidationMultipleError)(&multierror.Error{Errors: []error{fe}})
	zzverif.Assert(strings.Contains(fm.Error(), "m"), "multi-error-text-lists-every-item")
	zzverif.Reach("texts")
}
