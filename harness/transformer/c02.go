package transformer

// C02 - JSON -> DSL succeeds exactly for DSL-expressible models and the text is
// the canonical rendering of the normalised model.  C13: the model handed in is
// frozen.  C08: no panic on any explored path.

import (
	openfgav1 "github.com/openfga/api/proto/openfga/v1"

	pkgerrors "github.com/openfga/language/pkg/go/errors"
	"github.com/openfga/language/pkg/go/utils"
	"github.com/openfga/language/pkg/go/zzverif"
)

func verifModelWithRelation(typeName, rel string, u *openfgav1.Userset, restr []*openfgav1.RelationReference, sibling string) *openfgav1.AuthorizationModel {
	td := &openfgav1.TypeDefinition{Type: typeName,
		Relations: map[string]*openfgav1.Userset{rel: u},
		Metadata:  &openfgav1.Metadata{Relations: map[string]*openfgav1.RelationMetadata{rel: {DirectlyRelatedUserTypes: restr}}}}
	if sibling != "" {
		td.Relations[sibling] = verifComputed("other")
		td.Metadata.Relations[sibling] = &openfgav1.RelationMetadata{}
	}
	return &openfgav1.AuthorizationModel{SchemaVersion: "1.1",
		TypeDefinitions: []*openfgav1.TypeDefinition{{Type: "user"}, td},
		Conditions:      map[string]*openfgav1.Condition{"c1": verifCondition("c1")}}
}

// VerifC02_Shapes: every rewrite tree within the node/depth budget.
func VerifC02_Shapes() {
	g := &verifTreeGen{budget: zzverif.Param("NODES", 5), width: zzverif.Param("WIDTH", 3)}
	u := g.rewrite(zzverif.Param("DEPTH", 2))
	var restr []*openfgav1.RelationReference
	if k := zzverif.Choose("restrictions", len(verifRestrictionMenu)+1); k < len(verifRestrictionMenu) {
		restr = verifRestrictionMenu[k]
	}
	m := verifModelWithRelation("doc", "rel", u, restr, "")
	verifFreezeModel("model", m)
	out, err := TransformJSONProtoToDSL(m)
	// a direct assignment without type restrictions (a schema 1.0 relation) has no DSL form: '[]' is not accepted by the parser
	bare := verifExpressible(u) && verifCountThis(u) == 1 && len(restr) == 0
	expr := verifExpressible(u) && !bare
	if bare {
		zzverif.Class("succeeds-iff-expressible", "direct assignment without type restrictions")
	}
	zzverif.Assert((err == nil) == expr, "succeeds-iff-expressible")
	assignable := verifCountThis(u) > 0
	zzverif.Assert(utils.IsRelationAssignable(u) == assignable, "IsRelationAssignable-iff-direct-assignment")
	if err != nil {
		zzverif.Reach("rejected")
		zzverif.Assert(out == "", "error-returns-no-text")
		if !bare {
			zzverif.Assert(err.Error() == pkgerrors.UnsupportedDSLNestingError("doc", "rel").Error(), "error-is-unsupported-nesting")
		}
		return
	}
	zzverif.Reach("accepted")
	// C14: the text is a function of the model - a second call on the same model gives the same text
	out2, err2 := TransformJSONProtoToDSL(m)
	zzverif.Assert(err2 == nil && out2 == out, "same-text-on-every-call")
	if !expr {
		return
	}
	spec := m
	if !assignable {
		// restrictions of relations without a direct assignment are not carried by the DSL
		spec = verifModelWithRelation("doc", "rel", u, nil, "")
	}
	zzverif.Assert(out == verifSpecDSL(spec), "text-is-canonical-rendering-of-normalised-model")
	if !assignable {
		zzverif.Reach("restrictions-dropped")
	}
	if len(verifHoistedAnywhere(u)) > 0 {
		zzverif.Reach("hoisted")
	}
}

// verifHoistedAnywhere lists operators whose direct assignment is not already first.
func verifHoistedAnywhere(u *openfgav1.Userset) []*openfgav1.Userset {
	var out []*openfgav1.Userset
	var cs []*openfgav1.Userset
	switch x := u.GetUserset().(type) {
	case *openfgav1.Userset_Union:
		cs = x.Union.GetChild()
	case *openfgav1.Userset_Intersection:
		cs = x.Intersection.GetChild()
	case *openfgav1.Userset_Difference:
		return append(verifHoistedAnywhere(x.Difference.GetBase()), verifHoistedAnywhere(x.Difference.GetSubtract())...)
	}
	for i, c := range cs {
		if verifIsThis(c) && i > 0 {
			out = append(out, u)
		}
		out = append(out, verifHoistedAnywhere(c)...)
	}
	return out
}

// VerifC02_Names: symbolic relation/type names (sorting, keyword-like names),
// two relations, restrictions of every kind.
func VerifC02_Names() {
	n := zzverif.Param("N", 2)
	typeName := zzverif.Str("type", 1, n, verifNameAlphabet)
	rel := zzverif.Str("rel", 1, n, verifNameAlphabet)
	sib := zzverif.Str("sibling", 1, n, verifNameAlphabet)
	zzverif.Assume(rel != sib)
	u := verifThis()
	if zzverif.Choose("shape", 2) == 1 {
		u = &openfgav1.Userset{Userset: &openfgav1.Userset_Union{Union: &openfgav1.Usersets{Child: []*openfgav1.Userset{verifComputed(sib), verifThis()}}}}
	}
	restr := verifRestrictionMenu[zzverif.Choose("restrictions", len(verifRestrictionMenu))]
	m := verifModelWithRelation(typeName, rel, u, restr, sib)
	verifFreezeModel("model", m)
	out, err := TransformJSONProtoToDSL(m)
	zzverif.Assert(err == nil, "expressible-model-accepted")
	if err != nil {
		return
	}
	// expected text with the two relations in name order
	first, second := rel, sib
	if sib < rel {
		first, second = sib, rel
	}
	line := func(r string) string {
		if r == rel {
			return "\n    define " + r + ": " + verifSpecExpr(u, restr, true)
		}
		return "\n    define " + r + ": other"
	}
	want := "model\n  schema 1.1\n\ntype user\n\ntype " + typeName + "\n  relations" + line(first) + line(second) + "\n" +
		"\ncondition c1(m: map<timestamp>, s: string, x: int, y: list<string>) {\n  x < 10 && y.contains(s)\n}\n"
	zzverif.Assert(out == want, "relations-sorted-by-name")
	zzverif.Reach("printed")
}

// verifDSLScalar: the parameter types the DSL can write (CONDITION_PARAM_TYPE of the lexer grammar).
var verifDSLScalar = map[openfgav1.ConditionParamTypeRef_TypeName]string{
	openfgav1.ConditionParamTypeRef_TYPE_NAME_BOOL: "bool", openfgav1.ConditionParamTypeRef_TYPE_NAME_STRING: "string",
	openfgav1.ConditionParamTypeRef_TYPE_NAME_INT: "int", openfgav1.ConditionParamTypeRef_TYPE_NAME_UINT: "uint",
	openfgav1.ConditionParamTypeRef_TYPE_NAME_DOUBLE: "double", openfgav1.ConditionParamTypeRef_TYPE_NAME_DURATION: "duration",
	openfgav1.ConditionParamTypeRef_TYPE_NAME_TIMESTAMP: "timestamp", openfgav1.ConditionParamTypeRef_TYPE_NAME_IPADDRESS: "ipaddress",
}

// VerifC02_ParamTypes: a condition parameter of EVERY type name of the API (also the
// ones the DSL has no word for: unspecified, any, a number outside the enumeration),
// containers with zero, one or two element types, element types that are containers
// or carry element types themselves.  The conversion succeeds exactly when the DSL can
// write the parameter (scalar word, or list/map of one scalar word), and then the
// text is `name: type`; anything else is an error rather than text that the DSL
// parser rejects or that reads back as another type.
func VerifC02_ParamTypes() {
	if k := zzverif.Choose("parameter-list", 3); k > 0 {
		// a condition without any parameter (nil or empty map): the grammar demands at least one
		// (`condition c() {` is rejected by the parser), so the conversion has to fail
		c := &openfgav1.Condition{Name: "c", Expression: "true"}
		if k == 2 {
			c.Parameters = map[string]*openfgav1.ConditionParamTypeRef{}
		}
		m := &openfgav1.AuthorizationModel{SchemaVersion: "1.1", TypeDefinitions: []*openfgav1.TypeDefinition{{Type: "user"}}, Conditions: map[string]*openfgav1.Condition{"c": c}}
		verifFreezeModel("model", m)
		_, err := TransformJSONProtoToDSL(m)
		zzverif.Class("parameter-type-succeeds-iff-expressible", "condition without parameters")
		zzverif.Assert(err != nil, "parameter-type-succeeds-iff-expressible")
		if err != nil {
			zzverif.Reach("rejected")
		}
		return
	}
	all := []openfgav1.ConditionParamTypeRef_TypeName{0, 1, 2, 3, 4, 5, 6, 7, 8, 9, 10, 11, 12}
	tn := all[zzverif.Choose("type-name", len(all))]
	p := &openfgav1.ConditionParamTypeRef{TypeName: tn}
	ng := zzverif.Choose("element-types", 3)
	for i := 0; i < ng; i++ {
		g := &openfgav1.ConditionParamTypeRef{TypeName: all[zzverif.Choose("element-type-name", len(all))]}
		if i == 0 && zzverif.Choose("element-has-element", 2) == 1 {
			g.GenericTypes = []*openfgav1.ConditionParamTypeRef{{TypeName: openfgav1.ConditionParamTypeRef_TYPE_NAME_INT}}
		}
		p.GenericTypes = append(p.GenericTypes, g)
	}
	name := zzverif.Str("param", 1, 2, verifNameAlphabet)
	m := &openfgav1.AuthorizationModel{SchemaVersion: "1.1", TypeDefinitions: []*openfgav1.TypeDefinition{{Type: "user"}},
		Conditions: map[string]*openfgav1.Condition{"c": {Name: "c", Expression: "true", Parameters: map[string]*openfgav1.ConditionParamTypeRef{name: p}}}}
	verifFreezeModel("model", m)
	want := ""
	isContainer := tn == openfgav1.ConditionParamTypeRef_TYPE_NAME_LIST || tn == openfgav1.ConditionParamTypeRef_TYPE_NAME_MAP
	if w, ok := verifDSLScalar[tn]; ok && ng == 0 {
		want = w
	} else if isContainer && ng == 1 && len(p.GenericTypes[0].GenericTypes) == 0 {
		if w, ok := verifDSLScalar[p.GenericTypes[0].GetTypeName()]; ok {
			want = map[bool]string{true: "list", false: "map"}[tn == openfgav1.ConditionParamTypeRef_TYPE_NAME_LIST] + "<" + w + ">"
		}
	}
	out, err := TransformJSONProtoToDSL(m)
	cls := "parameter type the DSL has no word for"
	if _, ok := verifDSLScalar[tn]; ok && ng > 0 {
		cls = "scalar parameter with element types"
	} else if isContainer {
		cls = "container parameter whose element is not one scalar"
	}
	zzverif.Class("parameter-type-succeeds-iff-expressible", cls)
	zzverif.Assert((err == nil) == (want != ""), "parameter-type-succeeds-iff-expressible")
	if err == nil && want != "" {
		zzverif.Assert(out == "model\n  schema 1.1\n\ntype user\n\ncondition c("+name+": "+want+") {\n  true\n}\n", "parameter-type-text")
		zzverif.Reach("accepted")
	} else if err != nil {
		zzverif.Reach("rejected")
	}
}
