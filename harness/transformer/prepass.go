package transformer

// Comment/whitespace pre-pass of ParseDSL (used by C03, C14, C16).  The text
// that ParseDSL hands to the lexer is observed at antlr.NewInputStream through
// an interception hook that is overlaid into the antlr module for the executor
// and for the native replay alike; ParseDSL is cut there (the lexer and parser
// are outside engine A).

import (
	"strings"

	"github.com/antlr4-go/antlr/v4"

	"github.com/openfga/language/pkg/go/zzverif"
)

type verifStop struct{}

// verifCleaned returns what ParseDSL(data) gives to antlr.NewInputStream.
func verifCleaned(data string) (out string, ok bool) {
	antlr.VerifInputHook = func(s string) {
		out, ok = s, true
		panic(verifStop{})
	}
	defer func() {
		antlr.VerifInputHook = nil
		if r := recover(); r != nil {
			if _, is := r.(verifStop); !is {
				panic(r)
			}
		}
	}()
	ParseDSL(data)
	return
}

func verifAllSpaces(s string) bool {
	r := true
	for i := 0; i < len(s); i++ {
		r = zzverif.And(r, s[i] == ' ')
	}
	return r
}

// first non-space byte of s is '#'
func verifCommentLine(s string) bool {
	r := false
	pre := true
	for i := 0; i < len(s); i++ {
		r = zzverif.Or(r, zzverif.And(pre, s[i] == '#'))
		pre = zzverif.And(pre, s[i] == ' ')
	}
	return r
}

func verifContains2(s string, a, b byte) bool {
	r := false
	for i := 0; i+1 < len(s); i++ {
		r = zzverif.Or(r, zzverif.And(s[i] == a, s[i+1] == b))
	}
	return r
}

// verifPrePassLemmas asserts the layout lemmas for one input.
func verifPrePassLemmas(data string) {
	cleaned, ok := verifCleaned(data)
	zzverif.Assert(ok, "prepass-reaches-lexer")
	if !ok {
		return
	}
	// lines: what the lexer takes for lines - a line feed or a carriage return ends one (CR LF gives an empty
	// line in between, on both sides alike)
	// (a CR LF gives an empty line between the two on both sides alike: the lemmas are tied to an implementation that
	// keeps the CR of a CR LF; one that drops it would have to be given the corresponding reading of "line" here)
	dl := strings.Split(strings.ReplaceAll(data, "\r", "\n"), "\n")
	cl := strings.Split(strings.ReplaceAll(cleaned, "\r", "\n"), "\n")
	zzverif.Assert(len(cl) <= len(dl), "no-line-added")
	if len(cl) > len(dl) {
		return
	}
	for i := range dl {
		d := dl[i]
		if i >= len(cl) {
			// dropped at the end: the original line holds nothing but blanks or a comment
			zzverif.Assert(zzverif.Or(verifAllSpaces(d), verifCommentLine(d)), "only-empty-lines-dropped-at-end")
			continue
		}
		c := cl[i]
		zzverif.Assert(len(c) <= len(d), "cleaned-line-not-longer")
		if len(c) > len(d) {
			return
		}
		zzverif.Assert(d[:len(c)] == c, "cleaned-line-is-prefix")
		rest := d[len(c):]
		// removed part: blanks only, or blanks (at least one) followed by a '#' comment,
		// or the whole line when its first non-blank byte is '#'
		cut := zzverif.Or(verifAllSpaces(rest), zzverif.Or(zzverif.And(strings.HasPrefix(rest, " "), verifCommentLine(rest)), zzverif.And(len(c) == 0, verifCommentLine(d))))
		zzverif.Assert(cut, "only-comment-or-trailing-blanks-removed")
		// a comment ends where the line ends for the lexer: a carriage return that is not the CR of a CR LF
		// is a line break of the grammar (NEWLINE: ... '\r'? '\n' | '\r' | ...), what follows it is not comment
		// (with lines ending at carriage returns too this is implied by the line count; kept as the named lemma)
		noCR := true
		for k := 0; k < len(rest); k++ {
			noCR = zzverif.And(noCR, rest[k] != '\r')
		}
		zzverif.Class("comment-ends-at-the-line-break-of-the-grammar", "lone carriage return as line end")
		zzverif.Assert(noCR, "comment-ends-at-the-line-break-of-the-grammar")
		if len(c) > 0 {
			zzverif.Assert(c[len(c)-1] != ' ', "trailing-blanks-removed")
			zzverif.Assert(zzverif.Not(verifContains2(c, ' ', '#')), "trailing-comment-removed")
			zzverif.Assert(zzverif.Not(verifCommentLine(c)), "comment-line-removed")
		}
	}
	if nl := strings.Split(cleaned, "\n"); len(nl) > 1 {
		zzverif.Assert(len(nl[len(nl)-1]) > 0, "trailing-newlines-trimmed")
	}
	zzverif.Reach("lemmas-checked")
}

// VerifC03_PrePass: all byte strings up to N.
func VerifC03_PrePass() {
	n := zzverif.Param("N", 6)
	verifPrePassLemmas(zzverif.Str("data", 0, n, ""))
}

// VerifC03_PrePassTemplate: up to L lines, each = indent (0..2 blanks) + body of
// up to B arbitrary bytes + optional " #" + comment of up to 2 bytes + optional
// trailing blanks; reaches longer documents with fewer paths.
func VerifC03_PrePassTemplate() {
	lines := 1 + zzverif.Choose("lines", zzverif.Param("L", 3))
	b := zzverif.Param("B", 3)
	var sb []string
	for i := 0; i < lines; i++ {
		l := strings.Repeat(" ", zzverif.Choose("indent", 3))
		l += zzverif.Str("body", 0, b, "")
		if zzverif.Choose("comment", 2) == 1 {
			l += " #" + zzverif.Str("cbody", 0, 2, "")
		}
		l += strings.Repeat(" ", zzverif.Choose("trail", 2))
		sb = append(sb, l)
	}
	verifPrePassLemmas(strings.Join(sb, "\n"))
}
