package transformer

// Comment/whitespace pre-pass of ParseDSL (used by C03, C14, C16).  The text
// that ParseDSL hands to the lexer is observed at antlr.NewInputStream through
// an interception hook that is overlaid into the antlr module for the executor
// and for the native replay alike; ParseDSL is cut there (the lexer and parser
// are outside engine A).

import (
	"strings"
	"unicode/utf8"

	"github.com/antlr4-go/antlr/v4"

	"github.com/openfga/language/pkg/go/zzverif"
)

type verifStop struct{}

// verifCleaned returns what ParseDSL(data) gives to antlr.NewInputStream.
func verifCleaned(data string) (out string, ok bool) {
	antlr.VerifInputHook = func(s string) {
		out, ok = s, true
		panic(verifStop{})
	}
	defer func() {
		antlr.VerifInputHook = nil
		if r := recover(); r != nil {
			if _, is := r.(verifStop); !is {
				panic(r)
			}
		}
	}()
	ParseDSL(data)
	return
}

// verifAllWS: blanks, tabs and form feeds only (the white space of the grammar)
func verifAllWS(s string) bool {
	r := true
	for i := 0; i < len(s); i++ {
		r = zzverif.And(r, zzverif.Or(s[i] == ' ', zzverif.Or(s[i] == '\t', s[i] == '\f')))
	}
	return r
}

// verifWSThenComment: white space (possibly none) and then a trailing comment ` #...`
func verifWSThenComment(s string) bool {
	r := false
	pre := true
	for i := 0; i+1 < len(s); i++ {
		r = zzverif.Or(r, zzverif.And(pre, zzverif.And(s[i] == ' ', s[i+1] == '#')))
		pre = zzverif.And(pre, zzverif.Or(s[i] == ' ', zzverif.Or(s[i] == '\t', s[i] == '\f')))
	}
	return r
}

func verifAllSpaces(s string) bool {
	r := true
	for i := 0; i < len(s); i++ {
		r = zzverif.And(r, s[i] == ' ')
	}
	return r
}

// first non-space byte of s is '#'
func verifCommentLine(s string) bool {
	r := false
	pre := true
	for i := 0; i < len(s); i++ {
		r = zzverif.Or(r, zzverif.And(pre, s[i] == '#'))
		pre = zzverif.And(pre, s[i] == ' ')
	}
	return r
}

func verifContains2(s string, a, b byte) bool {
	r := false
	for i := 0; i+1 < len(s); i++ {
		r = zzverif.Or(r, zzverif.And(s[i] == a, s[i+1] == b))
	}
	return r
}

// verifPrePassLemmas asserts the layout lemmas for one input.
func verifPrePassLemmas(data string) {
	cleaned, ok := verifCleaned(data)
	zzverif.Assert(ok, "prepass-reaches-lexer")
	if !ok {
		return
	}
	// lines as the code and ANTLR count them (at line feeds); inside a line, a carriage return ends a segment -
	// a line break of the grammar as well (NEWLINE: ... '\r'? '\n' | '\r' | ...), so a comment ends there
	dn := strings.Split(data, "\n")
	cn := strings.Split(cleaned, "\n")
	zzverif.Assert(len(cn) <= len(dn), "no-line-added")
	if len(cn) > len(dn) {
		return
	}
	for i := range dn {
		ds := strings.Split(dn[i], "\r")
		if i >= len(cn) {
			// dropped at the end: the original line holds nothing but blanks, carriage returns or comments
			for _, d := range ds {
				zzverif.Assert(zzverif.Or(verifAllWS(d), zzverif.Or(verifCommentLine(d), verifWSThenComment(d))), "only-empty-lines-dropped-at-end")
			}
			continue
		}
		cs := strings.Split(cn[i], "\r")
		zzverif.Class("comment-ends-at-the-line-break-of-the-grammar", "lone carriage return as line end")
		zzverif.Assert(len(cs) == len(ds), "comment-ends-at-the-line-break-of-the-grammar")
		if len(cs) != len(ds) {
			return
		}
		for k := range ds {
			d, c := ds[k], cs[k]
			zzverif.Assert(len(c) <= len(d), "cleaned-line-not-longer")
			if len(c) > len(d) {
				return
			}
			zzverif.Assert(zzverif.Not(verifContains2(c, ' ', '#')), "trailing-comment-removed")
			zzverif.Assert(zzverif.Not(verifCommentLine(c)), "comment-line-removed")
			if k < len(ds)-1 {
				// a segment in front of a carriage return: same length (what was cut is blanked out, so that the
				// rest of the line keeps its columns); from the first changed column on nothing but blanks,
				// and only a comment or trailing blanks can have been changed
				// (in characters: columns are counted in runes; for ASCII input that is the length in bytes)
				if !verifASCII() {
					zzverif.Assert(utf8.RuneCountInString(c) == utf8.RuneCountInString(d), "segment-before-carriage-return-keeps-its-length")
					continue
				}
				zzverif.Assert(len(c) == len(d), "segment-before-carriage-return-keeps-its-length")
				if len(c) != len(d) {
					return
				}
				changed, okTail := false, true
				for j := 0; j < len(c); j++ {
					changed = zzverif.Or(changed, c[j] != d[j])
					okTail = zzverif.And(okTail, zzverif.Or(zzverif.Not(changed), c[j] == ' '))
				}
				zzverif.Assert(okTail, "cleaned-line-is-prefix")
				zzverif.Assert(zzverif.Or(zzverif.Not(changed), zzverif.Or(verifContains2(d, ' ', '#'), verifCommentLine(d))), "only-comment-or-trailing-blanks-removed")
				continue
			}
			// the last segment of a line: a prefix of the original, what was cut off is a comment or blanks
			zzverif.Assert(d[:len(c)] == c, "cleaned-line-is-prefix")
			rest := d[len(c):]
			cut := zzverif.Or(verifAllSpaces(rest), zzverif.Or(zzverif.And(strings.HasPrefix(rest, " "), verifCommentLine(rest)), zzverif.And(len(c) == 0, verifCommentLine(d))))
			if i == len(cn)-1 && k == len(ds)-1 {
				// the end of the cleaned text: the white space in front of the removed line breaks goes with them
				// (tabs and form feeds too), possibly in front of a removed comment
				ws := 0
				for ws < len(rest) && (rest[ws] == ' ' || rest[ws] == '\t' || rest[ws] == '\f') {
					ws++
				}
				tail := rest[ws:]
				cut = zzverif.Or(cut, zzverif.Or(len(tail) == 0, zzverif.And(ws > 0 && rest[ws-1] == ' ', len(tail) > 0 && tail[0] == '#')))
			}
			zzverif.Assert(cut, "only-comment-or-trailing-blanks-removed")
			if len(c) > 0 {
				zzverif.Assert(c[len(c)-1] != ' ', "trailing-blanks-removed")
			}
		}
	}
	// C16: a position in the cleaned text is a position in the original text - line for line (lines as ANTLR counts
	// them: at line feeds) the cleaned line is no longer than the original and agrees with it at every column,
	// except where it holds a blank (a removed comment in front of a carriage return may be blanked out)
	if verifASCII() {
		for i := range cn {
			if i >= len(dn) {
				break
			}
			zzverif.Assert(len(cn[i]) <= len(dn[i]), "columns-are-preserved")
			if len(cn[i]) > len(dn[i]) {
				continue
			}
			same := true
			for j := 0; j < len(cn[i]); j++ {
				same = zzverif.And(same, zzverif.Or(cn[i][j] == dn[i][j], cn[i][j] == ' '))
			}
			zzverif.Assert(same, "columns-are-preserved")
		}
	}
	// the white space in front of a line break belongs to that line break (one NEWLINE token): where the final line
	// break of the document is removed, the white space in front of it has to go as well - left behind it would be
	// a token of its own in front of the end of the input, which the grammar does not admit after a declaration
	if strings.HasSuffix(data, "\n") && len(cleaned) > 0 {
		last := cleaned[len(cleaned)-1]
		zzverif.Assert(zzverif.And(last != ' ', zzverif.And(last != '\t', last != '\f')), "white-space-of-the-removed-final-line-break-is-removed-with-it")
	}
	if nl := strings.Split(cleaned, "\n"); len(nl) > 1 {
		zzverif.Assert(len(nl[len(nl)-1]) > 0, "trailing-newlines-trimmed")
	}
	zzverif.Reach("lemmas-checked")
}

// verifASCII: the job draws its bytes from 0x00..0x7f (ASCII=1): bytes are characters, the column lemmas are stated
// byte for byte.  Without it every byte value occurs and the lemmas that count columns count runes.
func verifASCII() bool { return zzverif.Param("ASCII", 0) == 1 }

var verifASCIIAlphabet = func() string {
	b := make([]byte, 128)
	for i := range b {
		b[i] = byte(i)
	}
	return string(b)
}()

// VerifC03_PrePass: all byte strings up to N (ASCII=1: all strings over 0x00..0x7f).
func VerifC03_PrePass() {
	n := zzverif.Param("N", 6)
	alpha := ""
	if verifASCII() {
		alpha = verifASCIIAlphabet
	}
	verifPrePassLemmas(zzverif.Str("data", 0, n, alpha))
}

// VerifC03_PrePassTemplate: up to L lines, each = indent (0..2 blanks) + body of
// up to B arbitrary bytes + optional " #" + comment of up to 2 bytes + optional
// trailing blanks; reaches longer documents with fewer paths.
func VerifC03_PrePassTemplate() {
	lines := 1 + zzverif.Choose("lines", zzverif.Param("L", 3))
	b := zzverif.Param("B", 3)
	var sb []string
	for i := 0; i < lines; i++ {
		l := strings.Repeat(" ", zzverif.Choose("indent", 3))
		l += zzverif.Str("body", 0, b, "")
		if zzverif.Choose("comment", 2) == 1 {
			l += " #" + zzverif.Str("cbody", 0, 2, "")
		}
		l += strings.Repeat(" ", zzverif.Choose("trail", 2))
		sb = append(sb, l)
	}
	verifPrePassLemmas(strings.Join(sb, "\n"))
}

// VerifC16_PrePassRunes: columns are counted in characters (ANTLR's char positions are runes).  A comment that is
// blanked out in front of a carriage return has to be replaced by as many blanks as it has CHARACTERS, also when
// it holds text outside ASCII; body and tail are symbolic, the comment text comes from a menu.
func VerifC16_PrePassRunes() {
	body := zzverif.Str("body", 1, 2, "ab")
	tail := zzverif.Str("tail", 1, 2, "ab")
	cm := []struct {
		text  string
		runes int
	}{{"c", 1}, {"é", 1}, {"日本", 2}, {"xé日", 3}}[zzverif.Choose("comment", 4)]
	data := body + " #" + cm.text + "\r" + tail
	cleaned, ok := verifCleaned(data)
	zzverif.Assert(ok, "prepass-reaches-lexer")
	if !ok {
		return
	}
	want := body + strings.Repeat(" ", 2+cm.runes) + "\r" + tail
	zzverif.Assert(cleaned == want, "columns-are-preserved-in-characters")
	zzverif.Reach("lemmas-checked")
}
