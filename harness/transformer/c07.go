package transformer

// C07 / C12 / C16(d) - module merge.  TransformModuleFilesToModel,
// utils.Get*LineNumber, ConstructLineAndColumnData and
// GetModuleForObjectTypeRelation are executed symbolically; the per-file parse
// (TransformModularDSLToProto = lexer + parser + listener) is replaced by a stub
// that returns what the listener produces for the declarations the harness put
// into the file (contract below).  The contract is validated natively on every
// replayed witness: natively the real parser and listener run on the rendered
// text.  Names are symbolic, so which declarations collide is the solver's choice.

import (
	"fmt"
	"strings"

	"github.com/hashicorp/go-multierror"
	openfgav1 "github.com/openfga/api/proto/openfga/v1"

	"github.com/openfga/language/pkg/go/utils"
	"github.com/openfga/language/pkg/go/zzverif"
)

//verif:redirect github.com/openfga/language/pkg/go/transformer.TransformModularDSLToProto verifModularStub

type mRel struct {
	name string
	form int // 0: [user]  1: computed "x"  2: [user] or x
	line int // line index in the file
	col  int
}

type mDecl struct {
	extend bool
	name   string
	rels   []mRel
	line   int
	col    int
}

type mCond struct {
	name string
	line int
	col  int
}

type mFile struct {
	name    string
	module  string
	isModel bool // `model / schema 1.1` header instead of `module`
	broken  bool // contains a syntax error
	decls   []mDecl
	conds   []mCond
	text    string
}

var mFiles []*mFile
var mStubCalls int

// mSep: the blanks between a declaration keyword and the name (the grammar admits any run of blanks and tabs)
var mSep = " "

func mRewrite(form int) *openfgav1.Userset {
	this := &openfgav1.Userset{Userset: &openfgav1.Userset_This{This: &openfgav1.DirectUserset{}}}
	switch form {
	case 0:
		return this
	case 1:
		return verifComputed("x")
	}
	return &openfgav1.Userset{Userset: &openfgav1.Userset_Union{Union: &openfgav1.Usersets{Child: []*openfgav1.Userset{this, verifComputed("x")}}}}
}

var mRewriteText = []string{"[user]", "x", "[user] or x"}

// render lays the file out and records where every declaration stands.
func (f *mFile) render() {
	var lines []string
	if f.isModel {
		lines = append(lines, "model", "  schema 1.1")
	} else {
		lines = append(lines, "module "+f.module)
	}
	lines = append(lines, "")
	for i := range f.decls {
		d := &f.decls[i]
		kw := "type" + mSep
		if d.extend {
			kw = "extend" + mSep + "type" + mSep
		}
		d.line, d.col = len(lines), len(kw)
		lines = append(lines, kw+d.name)
		if len(d.rels) > 0 {
			lines = append(lines, "  relations")
		}
		for j := range d.rels {
			r := &d.rels[j]
			r.line, r.col = len(lines), len("    define"+mSep)
			lines = append(lines, "    define"+mSep+r.name+": "+mRewriteText[r.form])
		}
	}
	for i := range f.conds {
		c := &f.conds[i]
		c.line, c.col = len(lines), len("condition"+mSep)
		lines = append(lines, "condition"+mSep+c.name+"(x: int) {", "  x < 1", "}")
	}
	if f.broken {
		lines = append(lines, "type")
	}
	f.text = strings.Join(lines, mEOL)
}

// mEOL: the line end of the rendered files (CRLF=1: Windows line ends as an alternative)
var mEOL = "\n"

func mSyntaxError(line, col int, msg string) error {
	return &OpenFgaDslSyntaxError{line: line, column: col, msg: msg}
}

// verifModularStub: what ParseDSL + listener return for the file whose turn it
// is (the merge parses the files in list order, once each).
func verifModularStub(data string) (*openfgav1.AuthorizationModel, map[string]*openfgav1.TypeDefinition, error) {
	zzverif.Stub("TransformModularDSLToProto = listener result for the generated declarations (validated natively per witness)")
	f := mFiles[mStubCalls%len(mFiles)]
	mStubCalls++
	var errs *multierror.Error
	if f.broken {
		errs = multierror.Append(errs, mSyntaxError(0, 0, "syntax error"))
	}
	model := &openfgav1.AuthorizationModel{Conditions: map[string]*openfgav1.Condition{}}
	if f.isModel {
		model.SchemaVersion = "1.1"
	}
	var ext map[string]*openfgav1.TypeDefinition
	if !f.isModel {
		ext = map[string]*openfgav1.TypeDefinition{}
	}
	for _, d := range f.decls {
		if d.extend && f.isModel {
			errs = multierror.Append(errs, mSyntaxError(d.line, d.col, "extend can only be used in a modular model"))
		}
		td := &openfgav1.TypeDefinition{Type: d.name, Relations: map[string]*openfgav1.Userset{},
			Metadata: &openfgav1.Metadata{Relations: map[string]*openfgav1.RelationMetadata{}}}
		if !f.isModel {
			td.Metadata.Module = f.module
		}
		for _, r := range d.rels {
			if td.Relations[r.name] != nil {
				errs = multierror.Append(errs, mSyntaxError(r.line, r.col, fmt.Sprintf("'%s' is already defined in '%s'", r.name, d.name)))
			}
			td.Relations[r.name] = mRewrite(r.form)
			restr := []*openfgav1.RelationReference{}
			if r.form != 1 {
				restr = append(restr, &openfgav1.RelationReference{Type: "user"})
			}
			td.Metadata.Relations[r.name] = &openfgav1.RelationMetadata{DirectlyRelatedUserTypes: restr}
			if !f.isModel && d.extend {
				td.Metadata.Relations[r.name].Module = f.module
			}
		}
		if len(d.rels) == 0 {
			if f.isModel {
				td.Metadata = nil
			} else {
				td.Metadata.Relations = nil
			}
		}
		model.TypeDefinitions = append(model.TypeDefinitions, td)
		if d.extend && !f.isModel {
			if ext[d.name] != nil {
				errs = multierror.Append(errs, mSyntaxError(d.line, d.col, fmt.Sprintf("'%s' is already extended in file.", d.name)))
			} else {
				ext[d.name] = td
			}
		}
	}
	for _, c := range f.conds {
		if model.Conditions[c.name] != nil {
			errs = multierror.Append(errs, mSyntaxError(c.line, c.col, fmt.Sprintf("condition '%s' is already defined in the model", c.name)))
		}
		cd := &openfgav1.Condition{Name: c.name, Expression: "x < 1", Parameters: map[string]*openfgav1.ConditionParamTypeRef{
			"x": {TypeName: openfgav1.ConditionParamTypeRef_TYPE_NAME_INT, GenericTypes: []*openfgav1.ConditionParamTypeRef{}}}}
		if !f.isModel {
			cd.Metadata = &openfgav1.ConditionMetadata{Module: f.module}
		}
		model.Conditions[c.name] = cd
	}
	if errs != nil {
		return nil, nil, errs
	}
	return model, ext, nil
}

const mNames = "ab"

// mGenFiles draws the file set.  SCEN 0: up to F files with a global budget of
// DECLS declarations, RELS relations and CONDS conditions, every name symbolic
// (FAULTS adds model headers and syntax errors).  SCEN 1: relation-focused
// (a base type and two or three extensions in other files).  SCEN 2:
// extensions of relation-less types and conditions.
func mGenFiles() []*mFile {
	mSep = []string{" ", "  ", "\t"}[zzverif.Choose("separator", 1+2*zzverif.Param("SEPS", 0))]
	mEOL = []string{"\n", "\r\n"}[zzverif.Choose("line-end", 1+zzverif.Param("CRLF", 0))]
	n := zzverif.Param("N", 2)
	nr := zzverif.Param("NR", 1)
	var files []*mFile
	newFile := func() *mFile {
		f := &mFile{name: fmt.Sprintf("f%d.fga", len(files)), module: fmt.Sprintf("m%d", len(files))}
		if zzverif.Param("REVNAMES", 0) == 1 {
			// file names in descending order: code that sorts the caller's list has something to move
			f.name = fmt.Sprintf("f%d.fga", 9-len(files))
		}
		if len(files) > 0 && zzverif.Param("SAMEMOD", 0) == 1 && zzverif.Choose("same-module", 2) == 1 {
			// several files of one module (a layout the project supports)
			f.module = "m0"
		}
		files = append(files, f)
		return f
	}
	relNo := 0
	rel := func() mRel {
		relNo++
		return mRel{name: zzverif.Str("rel", 1, nr, mNames), form: relNo % 3}
	}
	switch zzverif.Param("SCEN", 0) {
	case 1:
		f0 := newFile()
		f0.decls = append(f0.decls, mDecl{name: zzverif.Str("type", 1, n, mNames), rels: []mRel{rel()}})
		f1 := newFile()
		f1.decls = append(f1.decls, mDecl{extend: true, name: zzverif.Str("type", 1, n, mNames), rels: []mRel{rel()}})
		switch zzverif.Choose("third", 3) {
		case 1:
			f1.decls = append(f1.decls, mDecl{extend: true, name: zzverif.Str("type", 1, n, mNames), rels: []mRel{rel()}})
		case 2:
			f2 := newFile()
			f2.decls = append(f2.decls, mDecl{extend: true, name: zzverif.Str("type", 1, n, mNames), rels: []mRel{rel()}})
		}
	case 3:
		// two base types with a relation each, two files extending (symbolic) types
		f0 := newFile()
		f0.decls = append(f0.decls, mDecl{name: zzverif.Str("type", 1, n, mNames), rels: []mRel{rel()}}, mDecl{name: zzverif.Str("type", 1, n, mNames), rels: []mRel{rel()}})
		for k := 0; k < 2; k++ {
			f := newFile()
			f.decls = append(f.decls, mDecl{extend: true, name: zzverif.Str("type", 1, n, mNames), rels: []mRel{rel()}})
		}
	case 4:
		// one extension block with two relations (prefix-related names possible) on a type that has relations
		f0 := newFile()
		f0.decls = append(f0.decls, mDecl{name: "t", rels: []mRel{{name: "z", form: 1}}})
		f1 := newFile()
		f1.decls = append(f1.decls, mDecl{extend: true, name: "t", rels: []mRel{
			{name: zzverif.Str("rel", 1, 2, mNames), form: 0}, {name: zzverif.Str("rel", 1, 2, mNames), form: 1}}})
	case 5:
		// a base type with two relations and one extension block that declares two relations:
		// zero, one or two conflicts, in either textual order
		f0 := newFile()
		f0.decls = append(f0.decls, mDecl{name: "t", rels: []mRel{{name: zzverif.Str("rel", 1, nr, mNames), form: 0}, {name: zzverif.Str("rel", 1, nr, mNames), form: 1}}})
		f1 := newFile()
		f1.decls = append(f1.decls, mDecl{extend: true, name: "u", rels: []mRel{{name: zzverif.Str("rel", 1, nr, mNames), form: 1}}},
			mDecl{extend: true, name: "t", rels: []mRel{{name: zzverif.Str("rel", 1, nr, mNames), form: 0}, {name: zzverif.Str("rel", 1, nr, mNames), form: 1}}})
		f2 := newFile()
		f2.decls = append(f2.decls, mDecl{name: "u"})
	case 2:
		f0 := newFile()
		f0.decls = append(f0.decls, mDecl{name: zzverif.Str("type", 1, n, mNames)})
		if zzverif.Choose("cond0", 2) == 1 {
			f0.conds = append(f0.conds, mCond{name: zzverif.Str("cond", 1, n, mNames)})
		}
		for k := 0; k < 2; k++ {
			f := newFile()
			f.decls = append(f.decls, mDecl{extend: true, name: zzverif.Str("type", 1, n, mNames), rels: []mRel{rel()}})
			if zzverif.Choose("cond", 2) == 1 {
				f.conds = append(f.conds, mCond{name: zzverif.Str("cond", 1, n, mNames)})
			}
		}
	default:
		nf := 1 + zzverif.Choose("files", zzverif.Param("F", 2))
		declBudget, relBudget, condBudget := zzverif.Param("DECLS", 3), zzverif.Param("RELS", 1), zzverif.Param("CONDS", 1)
		faults := zzverif.Param("FAULTS", 0) == 1
		for i := 0; i < nf; i++ {
			f := newFile()
			if faults {
				switch zzverif.Choose("fault", 3) {
				case 1:
					f.isModel = true
				case 2:
					f.broken = true
				}
			}
			maxD := 2
			if declBudget < maxD {
				maxD = declBudget
			}
			nd := zzverif.Choose("decls", maxD+1)
			declBudget -= nd
			for j := 0; j < nd; j++ {
				d := mDecl{extend: zzverif.Choose("extend", 2) == 1, name: zzverif.Str("type", 1, n, mNames)}
				if relBudget > 0 && zzverif.Choose("rels", 2) == 1 {
					relBudget--
					d.rels = append(d.rels, rel())
				}
				f.decls = append(f.decls, d)
			}
			if condBudget > 0 && zzverif.Choose("cond", 2) == 1 {
				condBudget--
				f.conds = append(f.conds, mCond{name: zzverif.Str("cond", 1, n, mNames)})
			}
		}
	}
	for _, f := range files {
		if zzverif.Param("LISTENER", 0) == 1 {
			f.renderTree()
		} else {
			f.render()
		}
	}
	return files
}

// ---- LISTENER=1: no stub for the per-file transform.  TransformModularDSLToProto and the
// real listener run; only ParseDSL's lexer+parser are replaced (job redirect
// ParseDSL -> verifMergeParseStub) by the generated parse tree of the file (parser stub
// of tree.go).  The file text and the positions of the declarations are those of the tree.

func mExpr(form int) *dExpr {
	direct := &dExpr{kind: 0, restr: []dRestr{{typ: "user"}}}
	switch form {
	case 0:
		return &dExpr{kind: 3, operands: []*dExpr{direct}}
	case 1:
		return &dExpr{kind: 3, operands: []*dExpr{{kind: 1, name: "x"}}}
	}
	return &dExpr{kind: 3, op: 1, operands: []*dExpr{direct, {kind: 1, name: "x"}}}
}

func (f *mFile) doc() *dDoc {
	d := &dDoc{module: f.module, schema: "1.1"}
	if f.isModel {
		d.module = ""
	}
	for _, dc := range f.decls {
		t := dType{name: dc.name, extend: dc.extend}
		for _, r := range dc.rels {
			t.rels = append(t.rels, dRel{name: r.name, expr: mExpr(r.form)})
		}
		d.types = append(d.types, t)
	}
	for _, c := range f.conds {
		d.conds = append(d.conds, dCond{name: c.name, params: []dParam{{name: "x", typ: "int"}}, expr: []string{"x", " ", "<", " ", "1"}})
	}
	return d
}

func (f *mFile) renderTree() {
	_, b := docTree(f.doc())
	at := func(key string) (int, int) {
		t := b.names[key]
		return t.GetLine() - 1, t.GetColumn()
	}
	for i := range f.decls {
		d := &f.decls[i]
		d.line, d.col = at(keyOf("type", i, -1))
		for j := range d.rels {
			d.rels[j].line, d.rels[j].col = at(keyOf("rel", i, j))
		}
	}
	for i := range f.conds {
		f.conds[i].line, f.conds[i].col = at(keyOf("cond", i, -1))
	}
	f.text = strings.Join(b.text, "")
	if f.broken {
		f.text += "\ntype"
	}
}

// verifMergeParseStub: ParseDSL for the file whose turn it is (the merge parses the files in list order, once each).
func verifMergeParseStub(data string) (*OpenFgaDslListener, *OpenFgaDslErrorListener) {
	f := mFiles[mStubCalls%len(mFiles)]
	mStubCalls++
	zzverif.Assert(data == f.text, "file-contents-reach-the-parser-unchanged")
	l, errs, _ := verifParseDoc(f.doc())
	if f.broken {
		errs = multierror.Append(errs, mSyntaxError(0, 0, "syntax error"))
	}
	return l, &OpenFgaDslErrorListener{Errors: errs}
}

// ---- the specification of the merge (written from the property text)

type mSpecRel struct {
	name         string
	form         int
	module, file string
	viaExtension bool
}

type mSpecType struct {
	name         string
	module, file string
	rels         []mSpecRel
}

type mConflict struct {
	kind string // syntax | not-a-module | duplicate-type | duplicate-condition | missing-extension-target | duplicate-relation
	file string
	line int
	col  int
	name string
	typ  string // for duplicate-relation: the extended type
	f    *mFile
}

// at reports whether (line, col) is the position of a declaration that the
// conflict can be blamed on: a declaration of the conflicting name of the same
// kind in that file (for a relation: inside an extension of the same type).
func (c mConflict) at(line, col int) bool {
	ok := false
	for _, d := range c.f.decls {
		switch c.kind {
		case "duplicate-type":
			if !d.extend && d.name == c.name && d.line == line && d.col == col {
				ok = true
			}
		case "missing-extension-target":
			if d.extend && d.name == c.name && d.line == line && d.col == col {
				ok = true
			}
		case "duplicate-relation":
			if d.extend && d.name == c.typ {
				for _, r := range d.rels {
					if r.name == c.name && r.line == line && r.col == col {
						ok = true
					}
				}
			}
		}
	}
	if c.kind == "duplicate-condition" {
		for _, k := range c.f.conds {
			if k.name == c.name && k.line == line && k.col == col {
				ok = true
			}
		}
	}
	return ok
}

// mSpec returns the conflicts of the file set and, if there are none, the
// merged model.
func mSpec(files []*mFile) ([]mConflict, []*mSpecType, map[string]*mFile) {
	var conflicts []mConflict
	var types []*mSpecType
	condFile := map[string]*mFile{}
	find := func(name string) *mSpecType {
		for _, t := range types {
			if t.name == name {
				return t
			}
		}
		return nil
	}
	// per-file well-formedness (the parser's job)
	ok := map[*mFile]bool{}
	for _, f := range files {
		good := !f.broken
		if f.isModel {
			good = false
		}
		seenExt := map[string]bool{}
		seenCond := map[string]bool{}
		for _, d := range f.decls {
			if d.extend {
				if seenExt[d.name] {
					good = false
				}
				seenExt[d.name] = true
			}
			seen := map[string]bool{}
			for _, r := range d.rels {
				if seen[r.name] {
					good = false
				}
				seen[r.name] = true
			}
		}
		for _, c := range f.conds {
			if seenCond[c.name] {
				good = false
			}
			seenCond[c.name] = true
		}
		ok[f] = good
		if !good {
			kind := "syntax"
			if f.isModel && !f.broken {
				kind = "not-a-module"
			}
			conflicts = append(conflicts, mConflict{kind: kind, file: f.name, f: f})
		}
	}
	// definitions
	for _, f := range files {
		if !ok[f] {
			continue
		}
		for _, d := range f.decls {
			if d.extend {
				continue
			}
			if find(d.name) != nil {
				conflicts = append(conflicts, mConflict{kind: "duplicate-type", file: f.name, line: d.line, col: d.col, name: d.name, f: f})
				continue
			}
			t := &mSpecType{name: d.name, module: f.module, file: f.name}
			for _, r := range d.rels {
				t.rels = append(t.rels, mSpecRel{name: r.name, form: r.form})
			}
			types = append(types, t)
		}
		for _, c := range f.conds {
			if condFile[c.name] != nil {
				conflicts = append(conflicts, mConflict{kind: "duplicate-condition", file: f.name, line: c.line, col: c.col, name: c.name, f: f})
				continue
			}
			condFile[c.name] = f
		}
	}
	// extensions
	for _, f := range files {
		if !ok[f] {
			continue
		}
		for _, d := range f.decls {
			if !d.extend {
				continue
			}
			t := find(d.name)
			if t == nil {
				conflicts = append(conflicts, mConflict{kind: "missing-extension-target", file: f.name, line: d.line, col: d.col, name: d.name, f: f})
				continue
			}
			for _, r := range d.rels {
				dup := false
				for _, e := range t.rels {
					if e.name == r.name {
						dup = true
					}
				}
				if dup {
					conflicts = append(conflicts, mConflict{kind: "duplicate-relation", file: f.name, line: r.line, col: r.col, name: r.name, typ: d.name, f: f})
					continue
				}
				t.rels = append(t.rels, mSpecRel{name: r.name, form: r.form, module: f.module, file: f.name, viaExtension: true})
			}
		}
	}
	return conflicts, types, condFile
}

func mModules(files []*mFile) []ModuleFile {
	var out []ModuleFile
	for _, f := range files {
		out = append(out, ModuleFile{Name: f.name, Contents: f.text})
	}
	return out
}

func mSameRewrite(u *openfgav1.Userset, form int) bool {
	switch form {
	case 0:
		_, ok := u.GetUserset().(*openfgav1.Userset_This)
		return ok
	case 1:
		return u.GetComputedUserset().GetRelation() == "x"
	}
	cs := u.GetUnion().GetChild()
	if len(cs) != 2 {
		return false
	}
	_, ok := cs[0].GetUserset().(*openfgav1.Userset_This)
	return ok && cs[1].GetComputedUserset().GetRelation() == "x"
}

// mCheckMerge runs the merge and asserts C07 (verdict, conservation,
// attribution) and C16(d) (file and position of every conflict).
func mCheckMerge(files []*mFile, schema string) (*openfgav1.AuthorizationModel, error) {
	mFiles, mStubCalls = files, 0
	mods := mModules(files)
	zzverif.Freeze("modules", mods)
	model, err := TransformModuleFilesToModel(mods, schema)
	conflicts, types, condFile := mSpec(files)
	zzverif.Class("succeeds-iff-conflict-free", mClass(files, conflicts))
	zzverif.Assert((err == nil) == (len(conflicts) == 0), "succeeds-iff-conflict-free")
	if err != nil {
		zzverif.Reach("rejected")
		zzverif.Assert(model == nil, "no-partial-model")
		me, ok := err.(*ModuleValidationMultipleError)
		zzverif.Assert(ok, "error-type")
		if !ok || len(conflicts) == 0 {
			return model, err
		}
		zzverif.Assert(len(me.Errors) > 0, "rejected-has-errors")
		// every reported error is one of the expected conflicts: names the file
		// and (for merge conflicts) the line and column of the declaration
		for _, e := range me.Errors {
			se, isMerge := e.(*ModuleTransformationSingleError)
			if !isMerge {
				sy, isSyntax := e.(*OpenFgaDslSyntaxError)
				zzverif.Assert(isSyntax, "error-item-type")
				if isSyntax {
					// a syntax error of a module file names that file as well (one of the files that do not parse)
					named := false
					for _, c := range conflicts {
						if (c.kind == "syntax" || c.kind == "not-a-module") && c.file == mSyntaxErrorFile(sy) {
							named = true
						}
					}
					zzverif.Class("conflict-error-names-the-offending-file", "syntax error of a module file")
					zzverif.Assert(named, "conflict-error-names-the-offending-file")
				}
				continue
			}
			if se.Msg == "file is not a module" {
				zzverif.Class("conflict-error-names-the-offending-file", "file is not a module")
			}
			matchFile, matchPos := false, false
			for _, c := range conflicts {
				if c.file == se.File {
					matchFile = true
					if c.kind != "syntax" && c.kind != "not-a-module" && c.at(se.Line.Start, se.Column.Start) {
						matchPos = true
					}
				}
			}
			zzverif.Assert(matchFile, "conflict-error-names-the-offending-file")
			if matchFile && se.Msg != "file is not a module" {
				zzverif.Class("conflict-error-position-is-the-declaration", mClass(files, conflicts))
				zzverif.Assert(matchPos, "conflict-error-position-is-the-declaration")
			}
		}
		return model, err
	}
	zzverif.Reach("accepted")
	if len(conflicts) != 0 || model == nil {
		return model, err
	}
	zzverif.Assert(model.GetSchemaVersion() == schema, "schema-version-verbatim")
	zzverif.Assert(len(model.GetTypeDefinitions()) == len(types), "types-none-lost-none-invented")
	if len(model.GetTypeDefinitions()) != len(types) {
		return model, err
	}
	for i, t := range types {
		td := model.GetTypeDefinitions()[i]
		zzverif.Assert(td.GetType() == t.name, "types-in-declaration-order")
		zzverif.Assert(td.GetMetadata().GetModule() == t.module && td.GetMetadata().GetSourceInfo().GetFile() == t.file, "type-attributed-to-declaring-module-and-file")
		zzverif.Assert(len(td.GetRelations()) == len(t.rels), "relations-none-lost-none-invented")
		for _, r := range t.rels {
			u, ok := td.GetRelations()[r.name]
			zzverif.Assert(ok, "relation-present")
			if !ok {
				continue
			}
			zzverif.Assert(mSameRewrite(u, r.form), "rewrite-unchanged")
			md := td.GetMetadata().GetRelations()[r.name]
			wantRestr := 1
			if r.form == 1 {
				wantRestr = 0
			}
			zzverif.Assert(len(md.GetDirectlyRelatedUserTypes()) == wantRestr, "type-restrictions-of-the-relation-unchanged")
			mod, e := utils.GetModuleForObjectTypeRelation(td, r.name)
			zzverif.Assert(e == nil, "GetModuleForObjectTypeRelation-finds-relation")
			if r.viaExtension {
				zzverif.Assert(md.GetModule() == r.module && md.GetSourceInfo().GetFile() == r.file, "extension-relation-attributed-to-extending-module-and-file")
				zzverif.Assert(mod == r.module, "GetModuleForObjectTypeRelation-extension")
			} else {
				zzverif.Assert(md.GetModule() == "", "own-relation-not-attributed-to-another-module")
				zzverif.Assert(mod == t.module, "GetModuleForObjectTypeRelation-own")
			}
		}
	}
	zzverif.Assert(len(model.GetConditions()) == len(condFile), "conditions-none-lost-none-invented")
	for name, f := range condFile {
		c := model.GetConditions()[name]
		zzverif.Assert(c != nil && c.GetName() == name, "condition-present")
		zzverif.Assert(c.GetMetadata().GetModule() == f.module && c.GetMetadata().GetSourceInfo().GetFile() == f.name, "condition-attributed-to-declaring-module-and-file")
	}
	return model, err
}

// mClass names the situation for known-findings matching.
func mClass(files []*mFile, conflicts []mConflict) string {
	for _, f := range files {
		if f.isModel {
			return "a file with a model header"
		}
	}
	for _, f := range files {
		def, ext := map[string]bool{}, map[string]bool{}
		for _, d := range f.decls {
			if d.extend {
				ext[d.name] = true
			} else {
				def[d.name] = true
			}
		}
		for n := range def {
			if ext[n] {
				return "a file defines and extends the same type"
			}
		}
	}
	return "other"
}

// VerifC07_Merge: C07 + C16(d) on one merge.
func VerifC07_Merge() {
	files := mGenFiles()
	mCheckMerge(files, "1.2")
}

// VerifC12_Deterministic: two merges of the same files (each with its own map
// iteration orders) give the same model, or the same errors in the same order.
func VerifC12_Deterministic() {
	files := mGenFiles()
	mFiles, mStubCalls = files, 0
	m1, e1 := TransformModuleFilesToModel(mModules(files), "1.2")
	mFiles, mStubCalls = files, 0
	m2, e2 := TransformModuleFilesToModel(mModules(files), "1.2")
	zzverif.Assert((e1 == nil) == (e2 == nil), "same-verdict-on-every-invocation")
	if e1 != nil && e2 != nil {
		zzverif.Reach("rejected")
		zzverif.Assert(mErrList(e1) == mErrList(e2), "same-errors-same-order")
		return
	}
	if e1 == nil && e2 == nil {
		zzverif.Reach("accepted")
		zzverif.Assert(mModelText(m1) == mModelText(m2), "same-model-on-every-invocation")
	}
}

// VerifC12_Permuted: permuting the file list changes neither the verdict nor,
// on success, anything but the order of the type definitions.
func VerifC12_Permuted() {
	files := mGenFiles()
	if len(files) < 2 {
		return
	}
	mFiles, mStubCalls = files, 0
	m1, e1 := TransformModuleFilesToModel(mModules(files), "1.2")
	perm := append([]*mFile{}, files...)
	i := zzverif.Choose("swap", len(files)-1)
	perm[i], perm[i+1] = perm[i+1], perm[i]
	mFiles, mStubCalls = perm, 0
	m2, e2 := TransformModuleFilesToModel(mModules(perm), "1.2")
	zzverif.Class("file-order-does-not-change-the-verdict", mClass(files, nil))
	zzverif.Assert((e1 == nil) == (e2 == nil), "file-order-does-not-change-the-verdict")
	if e1 == nil && e2 == nil {
		zzverif.Reach("accepted")
		zzverif.Assert(mModelSet(m1) == mModelSet(m2), "file-order-changes-only-type-order")
	} else {
		zzverif.Reach("rejected")
	}
}

func mErrList(err error) string {
	me, ok := err.(*ModuleValidationMultipleError)
	if !ok {
		return "?"
	}
	var sb strings.Builder
	for _, e := range me.Errors {
		if se, ok := e.(*ModuleTransformationSingleError); ok {
			sb.WriteString(fmt.Sprintf("[%s|%s|%d:%d]", se.Msg, se.File, se.Line.Start, se.Column.Start))
		} else {
			sb.WriteString("[syntax]")
		}
	}
	return sb.String()
}

func mTypeText(td *openfgav1.TypeDefinition) string {
	var sb strings.Builder
	sb.WriteString("type " + td.GetType() + "@" + td.GetMetadata().GetModule() + "@" + td.GetMetadata().GetSourceInfo().GetFile() + "{")
	// relation names may be symbolic: emit them in a name-independent canonical
	// order is not possible, so emit per relation a fragment and combine them
	// order-insensitively by sorting fragments of equal length lexicographically
	var frags []string
	for n, u := range td.GetRelations() {
		md := td.GetMetadata().GetRelations()[n]
		form := "?"
		for f := 0; f < 3; f++ {
			if mSameRewrite(u, f) {
				form = fmt.Sprint(f)
			}
		}
		frags = append(frags, n+"="+form+fmt.Sprint(len(md.GetDirectlyRelatedUserTypes()))+"@"+md.GetModule()+"@"+md.GetSourceInfo().GetFile())
	}
	mSortStrings(frags)
	sb.WriteString(strings.Join(frags, ","))
	sb.WriteString("}")
	return sb.String()
}

// mSortStrings: insertion sort with string comparison (forks on symbolic names).
func mSortStrings(a []string) {
	for i := 1; i < len(a); i++ {
		for j := i; j > 0 && a[j] < a[j-1]; j-- {
			a[j], a[j-1] = a[j-1], a[j]
		}
	}
}

func mCondText(m *openfgav1.AuthorizationModel) string {
	var frags []string
	for n, c := range m.GetConditions() {
		frags = append(frags, n+"@"+c.GetMetadata().GetModule()+"@"+c.GetMetadata().GetSourceInfo().GetFile())
	}
	mSortStrings(frags)
	return strings.Join(frags, ",")
}

func mModelText(m *openfgav1.AuthorizationModel) string {
	var parts []string
	for _, td := range m.GetTypeDefinitions() {
		parts = append(parts, mTypeText(td))
	}
	return strings.Join(parts, ";") + "|" + mCondText(m)
}

func mModelSet(m *openfgav1.AuthorizationModel) string {
	var parts []string
	for _, td := range m.GetTypeDefinitions() {
		parts = append(parts, mTypeText(td))
	}
	mSortStrings(parts)
	return strings.Join(parts, ";") + "|" + mCondText(m)
}

// mSyntaxErrorFile: the file a syntax error names (field File, added by the repair of this defect; before, the
// error type had no way to say so and this function returned "").
func mSyntaxErrorFile(e *OpenFgaDslSyntaxError) string {
	return e.File
}
