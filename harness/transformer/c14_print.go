package transformer

// C14 - canonicity (one text per model across map orders and type-definition
// order) and inertness of source-information comments through the real
// pre-pass.  C13 - the printer must not touch the model it is given.

import (
	openfgav1 "github.com/openfga/api/proto/openfga/v1"
	"strings"

	"github.com/openfga/language/pkg/go/zzverif"
)

const verifFileAlphabetDefault = "a-b./_" // module and file names

// verifFileAlpha: NL=1 adds the line feed and the carriage return (a name that would end the comment it is printed in)
func verifFileAlpha() string {
	if zzverif.Param("NL", 0) == 1 {
		return "a\n\r"
	}
	return verifFileAlphabetDefault
}

func verifSrc(module, file string) *openfgav1.SourceInfo {
	if file == "" {
		return nil
	}
	return &openfgav1.SourceInfo{File: file}
}

// verifModularModel: two or three types with symbolic module/file attribution,
// one type with two relations (one of them contributed by another module), two
// conditions.
func verifModularModel(n int) *openfgav1.AuthorizationModel {
	mods := []string{zzverif.Str("mod0", 1, n, verifFileAlpha()), zzverif.Str("mod1", 1, n, verifFileAlpha())}
	files := []string{zzverif.Str("file0", 0, n, verifFileAlpha()), zzverif.Str("file1", 0, n, verifFileAlpha())}
	tnames := []string{zzverif.Str("t0", 1, n, verifNameAlphabet), zzverif.Str("t1", 1, n, verifNameAlphabet)}
	zzverif.Assume(tnames[0] != tnames[1])
	r0, r1 := zzverif.Str("r0", 1, n, verifNameAlphabet), zzverif.Str("r1", 1, n, verifNameAlphabet)
	zzverif.Assume(r0 != r1)
	t0 := &openfgav1.TypeDefinition{Type: tnames[0], Metadata: &openfgav1.Metadata{Module: mods[0], SourceInfo: verifSrc(mods[0], files[0])}}
	t1 := &openfgav1.TypeDefinition{Type: tnames[1],
		Relations: map[string]*openfgav1.Userset{r0: verifThis(), r1: verifComputed(r0)},
		Metadata: &openfgav1.Metadata{Module: mods[1], SourceInfo: verifSrc(mods[1], files[1]), Relations: map[string]*openfgav1.RelationMetadata{
			r0: {DirectlyRelatedUserTypes: []*openfgav1.RelationReference{{Type: tnames[0]}}},
			r1: {Module: mods[0], SourceInfo: verifSrc(mods[0], files[0])},
		}}}
	c0, c1 := verifCondition("ca"), verifCondition("cb")
	c0.Metadata = &openfgav1.ConditionMetadata{Module: mods[1], SourceInfo: verifSrc(mods[1], files[1])}
	c1.Metadata = &openfgav1.ConditionMetadata{Module: mods[0], SourceInfo: verifSrc(mods[0], files[0])}
	return &openfgav1.AuthorizationModel{SchemaVersion: "1.2", TypeDefinitions: []*openfgav1.TypeDefinition{t0, t1},
		Conditions: map[string]*openfgav1.Condition{"ca": c0, "cb": c1}}
}

func verifSwapTypes(m *openfgav1.AuthorizationModel) *openfgav1.AuthorizationModel {
	tds := m.GetTypeDefinitions()
	return &openfgav1.AuthorizationModel{SchemaVersion: m.GetSchemaVersion(), Conditions: m.GetConditions(),
		TypeDefinitions: []*openfgav1.TypeDefinition{tds[1], tds[0]}}
}

// VerifC14_Canonical: printing twice (independent map orders) and printing the
// model with permuted type definitions gives byte-identical text.
func VerifC14_Canonical() {
	m := verifModularModel(zzverif.Param("N", 1))
	src := zzverif.Choose("source-info", 2) == 1
	a, errA := TransformJSONProtoToDSL(m, WithIncludeSourceInformation(src))
	b, errB := TransformJSONProtoToDSL(m, WithIncludeSourceInformation(src))
	c, errC := TransformJSONProtoToDSL(verifSwapTypes(m), WithIncludeSourceInformation(src))
	zzverif.Assert(errA == nil && errB == nil && errC == nil, "modular-model-prints")
	if errA != nil || errB != nil || errC != nil {
		return
	}
	zzverif.Assert(a == b, "same-text-on-every-call")
	zzverif.Assert(a == c, "same-text-for-any-type-definition-order")
	zzverif.Reach("printed")
}

// VerifC14_Inert: the text with source information differs from the plain text
// only by comments that the real pre-pass of ParseDSL removes again.
func VerifC14_Inert() {
	m := verifModularModel(zzverif.Param("N", 1))
	plain, err1 := TransformJSONProtoToDSL(m)
	with, err2 := TransformJSONProtoToDSL(m, WithIncludeSourceInformation(true))
	zzverif.Assert(err1 == nil && err2 == nil, "modular-model-prints")
	if err1 != nil || err2 != nil {
		return
	}
	cp, ok1 := verifCleaned(plain)
	cw, ok2 := verifCleaned(with)
	zzverif.Assert(ok1 && ok2, "prepass-reaches-lexer")
	zzverif.Assert(cp == cw, "source-comments-are-inert-through-the-prepass")
	zzverif.Assert(len(with) > len(plain), "source-information-is-emitted")
	zzverif.Reach("compared")
}

// VerifC13_PrinterFrozen: the printer does not modify the model (modular models
// are where it sorts).
func VerifC13_PrinterFrozen() {
	m := verifModularModel(zzverif.Param("N", 1))
	zzverif.Freeze("model", m)
	if !zzverif.Symbolic() {
		before := []*openfgav1.TypeDefinition{m.TypeDefinitions[0], m.TypeDefinitions[1]}
		zzverif.FreezeNative("model", func() bool {
			return m.TypeDefinitions[0] == before[0] && m.TypeDefinitions[1] == before[1]
		})
	}
	_, err := TransformJSONProtoToDSL(m, WithIncludeSourceInformation(zzverif.Choose("source-info", 2) == 1))
	zzverif.Assert(err == nil, "modular-model-prints")
	zzverif.Reach("printed")
}

// VerifC14_TypeOrder: three types, each attributed to a (symbolic) module or
// not, printed in every order of the type definitions: one text.
func VerifC14_TypeOrder() {
	n := zzverif.Param("N", 1)
	var tds []*openfgav1.TypeDefinition
	anyModule := false
	var names []string
	for i := 0; i < 3; i++ {
		name := zzverif.Str("type", 1, n, verifNameAlphabet)
		for _, o := range names {
			zzverif.Assume(name != o)
		}
		names = append(names, name)
		td := &openfgav1.TypeDefinition{Type: name}
		if zzverif.Choose("attributed", 2) == 1 {
			mod := zzverif.Str("module", 1, n, verifFileAlpha())
			td.Metadata = &openfgav1.Metadata{Module: mod, SourceInfo: verifSrc(mod, zzverif.Str("file", 0, n, verifFileAlpha()))}
			anyModule = true
		}
		tds = append(tds, td)
	}
	zzverif.Assume(anyModule)
	perms := [][3]int{{0, 1, 2}, {0, 2, 1}, {1, 0, 2}, {1, 2, 0}, {2, 0, 1}, {2, 1, 0}}
	p := perms[1+zzverif.Choose("permutation", 5)]
	src := zzverif.Choose("source-info", 2) == 1
	a, errA := TransformJSONProtoToDSL(&openfgav1.AuthorizationModel{SchemaVersion: "1.2", TypeDefinitions: tds}, WithIncludeSourceInformation(src))
	b, errB := TransformJSONProtoToDSL(&openfgav1.AuthorizationModel{SchemaVersion: "1.2", TypeDefinitions: []*openfgav1.TypeDefinition{tds[p[0]], tds[p[1]], tds[p[2]]}}, WithIncludeSourceInformation(src))
	zzverif.Assert(errA == nil && errB == nil, "modular-model-prints")
	zzverif.Assert(a == b, "same-text-for-any-type-definition-order")
	zzverif.Reach("printed")
}

// VerifC14_ManyRelations: a modular type with K relations in three
// (module, file) groups: the documented order (unattributed first, then by
// module and file, by name inside a group) whatever the map iteration order;
// K goes beyond the size up to which Go's sort falls back to insertion sort.
func VerifC14_ManyRelations() {
	k := []int{5, 13, 14, 21}[zzverif.Choose("relations", 4)]
	td := &openfgav1.TypeDefinition{Type: "doc", Relations: map[string]*openfgav1.Userset{},
		Metadata: &openfgav1.Metadata{Module: "core", SourceInfo: verifSrc("core", "core.fga"), Relations: map[string]*openfgav1.RelationMetadata{}}}
	groups := []struct{ module, file string }{{"", ""}, {"alpha", "a.fga"}, {"beta", "b.fga"}}
	var want [3][]string
	for i := 0; i < k; i++ {
		name := "rel_" + string(rune('a'+(i*7)%26)) + string(rune('a'+i%26))
		g := (i * 5) % 3
		td.Relations[name] = verifComputed("x")
		td.Metadata.Relations[name] = &openfgav1.RelationMetadata{Module: groups[g].module, SourceInfo: verifSrc(groups[g].module, groups[g].file)}
		want[g] = append(want[g], name)
	}
	tds := []*openfgav1.TypeDefinition{td}
	if zzverif.Choose("type-without-own-module", 2) == 1 {
		// the type itself is unattributed (its relations come from modules); another type makes the model modular
		td.Metadata.Module, td.Metadata.SourceInfo = "", nil
		tds = append(tds, &openfgav1.TypeDefinition{Type: "zz", Metadata: &openfgav1.Metadata{Module: "core", SourceInfo: verifSrc("core", "core.fga")}})
	}
	text, err := TransformJSONProtoToDSL(&openfgav1.AuthorizationModel{SchemaVersion: "1.2", TypeDefinitions: tds})
	zzverif.Assert(err == nil, "modular-model-prints")
	expected := "model\n  schema 1.2\n\ntype doc\n  relations"
	for g := range want {
		mSortStrings(want[g])
		for _, n := range want[g] {
			expected += "\n    define " + n + ": x"
		}
	}
	expected += "\n"
	if len(tds) == 2 {
		expected += "\ntype zz\n"
	}
	zzverif.Assert(text == expected, "relations-in-documented-order")
	zzverif.Reach("printed")
}

// VerifC14_ParamOrder: the parameters of a condition are printed in order by name - names over an
// alphabet that straddles ':' in the byte order (digits and '-' sort before it, letters and '_' after),
// so that "sorted by name" and "sorted by rendered entry" differ when one name is a prefix of another.
func VerifC14_ParamOrder() {
	n := zzverif.Param("N", 2)
	var names []string
	params := map[string]*openfgav1.ConditionParamTypeRef{}
	k := 2 + zzverif.Choose("parameters", 2)
	for i := 0; i < k; i++ {
		name := zzverif.Str("param", 1, n, "a1_-")
		for _, o := range names {
			zzverif.Assume(name != o)
		}
		names = append(names, name)
		params[name] = &openfgav1.ConditionParamTypeRef{TypeName: openfgav1.ConditionParamTypeRef_TYPE_NAME_INT}
	}
	m := &openfgav1.AuthorizationModel{SchemaVersion: "1.1", TypeDefinitions: []*openfgav1.TypeDefinition{{Type: "user"}},
		Conditions: map[string]*openfgav1.Condition{"c": {Name: "c", Expression: "true", Parameters: params}}}
	text, err := TransformJSONProtoToDSL(m)
	zzverif.Assert(err == nil, "model-prints")
	if err != nil {
		return
	}
	mSortStrings(names)
	want := "condition c("
	for i, p := range names {
		if i > 0 {
			want += ", "
		}
		want += p + ": int"
	}
	want += ") {"
	zzverif.Assert(strings.Contains(text, want), "parameters-in-order-by-name")
	zzverif.Reach("printed")
}

// VerifC14_CondOrder: three conditions, each attributed to a (symbolic) module and file or not: printed
// unattributed first, then by module, file, name - under every iteration order of the conditions map.
func VerifC14_CondOrder() {
	n := zzverif.Param("N", 1)
	type cnd struct{ name, module, file string }
	var cs []cnd
	conds := map[string]*openfgav1.Condition{}
	anyModule := false
	for i := 0; i < 3; i++ {
		c := cnd{name: zzverif.Str("cond", 1, n, verifNameAlphabet)}
		for _, o := range cs {
			zzverif.Assume(c.name != o.name)
		}
		cd := &openfgav1.Condition{Name: c.name, Expression: "true", Parameters: map[string]*openfgav1.ConditionParamTypeRef{"x": {TypeName: openfgav1.ConditionParamTypeRef_TYPE_NAME_INT}}}
		if zzverif.Choose("attributed", 2) == 1 {
			c.module, c.file = zzverif.Str("module", 1, n, verifFileAlpha()), zzverif.Str("file", 0, n, verifFileAlpha())
			cd.Metadata = &openfgav1.ConditionMetadata{Module: c.module, SourceInfo: verifSrc(c.module, c.file)}
			anyModule = true
		}
		cs = append(cs, c)
		conds[c.name] = cd
	}
	zzverif.Assume(anyModule)
	td := &openfgav1.TypeDefinition{Type: "user", Metadata: &openfgav1.Metadata{Module: "core", SourceInfo: verifSrc("core", "core.fga")}}
	text, err := TransformJSONProtoToDSL(&openfgav1.AuthorizationModel{SchemaVersion: "1.2", TypeDefinitions: []*openfgav1.TypeDefinition{td}, Conditions: conds})
	zzverif.Assert(err == nil, "modular-model-prints")
	if err != nil {
		return
	}
	// documented order: unattributed first, then module, file, name (insertion sort on the three)
	less := func(a, b cnd) bool {
		if (a.module == "") != (b.module == "") {
			return a.module == ""
		}
		if a.module != b.module {
			return a.module < b.module
		}
		if a.file != b.file {
			return a.file < b.file
		}
		return a.name < b.name
	}
	for i := 1; i < len(cs); i++ {
		for j := i; j > 0 && less(cs[j], cs[j-1]); j-- {
			cs[j], cs[j-1] = cs[j-1], cs[j]
		}
	}
	want := ""
	for _, c := range cs {
		want += "\ncondition " + c.name + "(x: int) {\n  true\n}\n"
	}
	zzverif.Assert(strings.HasSuffix(text, want), "conditions-in-documented-order")
	zzverif.Reach("printed")
}
