package transformer

// Shared generators (DESIGN 5.1/5.2): rewrite trees and small models, and the
// independent specification of the DSL text of a model.

import (
	"fmt"
	"sort"
	"strings"

	openfgav1 "github.com/openfga/api/proto/openfga/v1"
	"google.golang.org/protobuf/proto"

	"github.com/openfga/language/pkg/go/zzverif"
)

// verifFreezeModel: under the executor every cell reachable from m becomes
// read-only (frozen-object monitor); natively a deep copy is compared at the end.
func verifFreezeModel(label string, m *openfgav1.AuthorizationModel) {
	zzverif.Freeze(label, m)
	if !zzverif.Symbolic() {
		snap := proto.Clone(m)
		zzverif.FreezeNative(label, func() bool { return proto.Equal(snap, m) })
	}
}

const verifNameAlphabet = "a-c_"

type verifTreeGen struct {
	budget     int  // nodes left
	width      int  // max children of union/intersection
	degenerate bool // allow zero children, unset oneofs, nil children
	leaf       int  // running leaf number (distinct concrete leaf names)
}

func verifThis() *openfgav1.Userset {
	return &openfgav1.Userset{Userset: &openfgav1.Userset_This{This: &openfgav1.DirectUserset{}}}
}

func verifComputed(name string) *openfgav1.Userset {
	return &openfgav1.Userset{Userset: &openfgav1.Userset_ComputedUserset{ComputedUserset: &openfgav1.ObjectRelation{Relation: name}}}
}

func verifTTU(computed, tupleset string) *openfgav1.Userset {
	return &openfgav1.Userset{Userset: &openfgav1.Userset_TupleToUserset{TupleToUserset: &openfgav1.TupleToUserset{
		ComputedUserset: &openfgav1.ObjectRelation{Relation: computed},
		Tupleset:        &openfgav1.ObjectRelation{Relation: tupleset},
	}}}
}

// rewrite chooses a tree node by node.
func (g *verifTreeGen) rewrite(depth int) *openfgav1.Userset {
	g.budget--
	kinds := 3
	if depth > 0 && g.budget >= 1 {
		kinds = 6
	}
	extra := 0
	if g.degenerate {
		extra = 2
	}
	k := zzverif.Choose("kind", kinds+extra)
	if k >= kinds {
		if k == kinds {
			return &openfgav1.Userset{} // unset oneof
		}
		return nil
	}
	switch k {
	case 0:
		return verifThis()
	case 1:
		g.leaf++
		return verifComputed(fmt.Sprintf("r%d", g.leaf))
	case 2:
		g.leaf++
		return verifTTU(fmt.Sprintf("r%d", g.leaf), fmt.Sprintf("p%d", g.leaf))
	case 3, 4:
		max := g.width
		if g.budget < max {
			max = g.budget
		}
		lo := 1
		if g.degenerate {
			lo = 0
		}
		n := lo + zzverif.Choose("children", max-lo+1)
		var cs []*openfgav1.Userset
		for i := 0; i < n; i++ {
			cs = append(cs, g.rewrite(depth-1))
		}
		if k == 3 {
			return &openfgav1.Userset{Userset: &openfgav1.Userset_Union{Union: &openfgav1.Usersets{Child: cs}}}
		}
		return &openfgav1.Userset{Userset: &openfgav1.Userset_Intersection{Intersection: &openfgav1.Usersets{Child: cs}}}
	default:
		if g.budget < 2 {
			g.leaf++
			return verifComputed(fmt.Sprintf("r%d", g.leaf))
		}
		base := g.rewrite(depth - 1)
		sub := g.rewrite(depth - 1)
		return &openfgav1.Userset{Userset: &openfgav1.Userset_Difference{Difference: &openfgav1.Difference{Base: base, Subtract: sub}}}
	}
}

// ---- specification (written from the property text, shares nothing with jsontodsl.go)

func verifCountThis(u *openfgav1.Userset) int {
	switch x := u.GetUserset().(type) {
	case *openfgav1.Userset_This:
		return 1
	case *openfgav1.Userset_Union:
		n := 0
		for _, c := range x.Union.GetChild() {
			n += verifCountThis(c)
		}
		return n
	case *openfgav1.Userset_Intersection:
		n := 0
		for _, c := range x.Intersection.GetChild() {
			n += verifCountThis(c)
		}
		return n
	case *openfgav1.Userset_Difference:
		return verifCountThis(x.Difference.GetBase()) + verifCountThis(x.Difference.GetSubtract())
	}
	return 0
}

func verifIsThis(u *openfgav1.Userset) bool {
	_, ok := u.GetUserset().(*openfgav1.Userset_This)
	return ok
}

// verifFirst: the direct assignment can be placed first (recursively from the root).
func verifFirst(u *openfgav1.Userset) bool {
	var cs []*openfgav1.Userset
	switch x := u.GetUserset().(type) {
	case *openfgav1.Userset_This:
		return true
	case *openfgav1.Userset_Difference:
		return verifFirst(x.Difference.GetBase())
	case *openfgav1.Userset_Union:
		cs = x.Union.GetChild()
	case *openfgav1.Userset_Intersection:
		cs = x.Intersection.GetChild()
	default:
		return false
	}
	for _, c := range cs {
		if verifIsThis(c) {
			return true
		}
	}
	if len(cs) == 0 {
		return false
	}
	return verifFirst(cs[0])
}

// verifWellFormed: every node is one of the six kinds and operators have operands.
func verifWellFormed(u *openfgav1.Userset) bool {
	switch x := u.GetUserset().(type) {
	case *openfgav1.Userset_This, *openfgav1.Userset_ComputedUserset, *openfgav1.Userset_TupleToUserset:
		return true
	case *openfgav1.Userset_Union:
		if len(x.Union.GetChild()) == 0 {
			return false
		}
		for _, c := range x.Union.GetChild() {
			if !verifWellFormed(c) {
				return false
			}
		}
		return true
	case *openfgav1.Userset_Intersection:
		if len(x.Intersection.GetChild()) == 0 {
			return false
		}
		for _, c := range x.Intersection.GetChild() {
			if !verifWellFormed(c) {
				return false
			}
		}
		return true
	case *openfgav1.Userset_Difference:
		return verifWellFormed(x.Difference.GetBase()) && verifWellFormed(x.Difference.GetSubtract())
	}
	return false
}

func verifExpressible(u *openfgav1.Userset) bool {
	n := verifCountThis(u)
	return n == 0 || (n == 1 && verifFirst(u))
}

func verifHoist(cs []*openfgav1.Userset) []*openfgav1.Userset {
	for i, c := range cs {
		if verifIsThis(c) {
			out := []*openfgav1.Userset{c}
			out = append(out, cs[:i]...)
			return append(out, cs[i+1:]...)
		}
	}
	return cs
}

func verifSpecRestriction(r *openfgav1.RelationReference) string {
	s := r.GetType()
	if r.GetWildcard() != nil {
		s += ":*"
	}
	if r.GetRelation() != "" {
		s += "#" + r.GetRelation()
	}
	if r.GetCondition() != "" {
		s += " with " + r.GetCondition()
	}
	return s
}

// verifSpecExpr is the DSL text of a rewrite: operators at the root are written
// bare, nested operators in parentheses, the direct assignment hoisted.
func verifSpecExpr(u *openfgav1.Userset, restrictions []*openfgav1.RelationReference, root bool) string {
	wrap := func(s string) string {
		if root {
			return s
		}
		return "(" + s + ")"
	}
	join := func(cs []*openfgav1.Userset, op string) string {
		var parts []string
		for _, c := range verifHoist(cs) {
			parts = append(parts, verifSpecExpr(c, restrictions, false))
		}
		return wrap(strings.Join(parts, op))
	}
	switch x := u.GetUserset().(type) {
	case *openfgav1.Userset_This:
		var rs []string
		for _, r := range restrictions {
			rs = append(rs, verifSpecRestriction(r))
		}
		return "[" + strings.Join(rs, ", ") + "]"
	case *openfgav1.Userset_ComputedUserset:
		return x.ComputedUserset.GetRelation()
	case *openfgav1.Userset_TupleToUserset:
		return x.TupleToUserset.GetComputedUserset().GetRelation() + " from " + x.TupleToUserset.GetTupleset().GetRelation()
	case *openfgav1.Userset_Union:
		return join(x.Union.GetChild(), " or ")
	case *openfgav1.Userset_Intersection:
		return join(x.Intersection.GetChild(), " and ")
	case *openfgav1.Userset_Difference:
		return wrap(verifSpecExpr(x.Difference.GetBase(), restrictions, false) + " but not " + verifSpecExpr(x.Difference.GetSubtract(), restrictions, false))
	}
	return "?"
}

func verifParamTypeText(p *openfgav1.ConditionParamTypeRef) string {
	names := map[openfgav1.ConditionParamTypeRef_TypeName]string{
		openfgav1.ConditionParamTypeRef_TYPE_NAME_UNSPECIFIED: "unspecified",
		openfgav1.ConditionParamTypeRef_TYPE_NAME_ANY:         "any", openfgav1.ConditionParamTypeRef_TYPE_NAME_BOOL: "bool",
		openfgav1.ConditionParamTypeRef_TYPE_NAME_STRING: "string", openfgav1.ConditionParamTypeRef_TYPE_NAME_INT: "int",
		openfgav1.ConditionParamTypeRef_TYPE_NAME_UINT: "uint", openfgav1.ConditionParamTypeRef_TYPE_NAME_DOUBLE: "double",
		openfgav1.ConditionParamTypeRef_TYPE_NAME_DURATION: "duration", openfgav1.ConditionParamTypeRef_TYPE_NAME_TIMESTAMP: "timestamp",
		openfgav1.ConditionParamTypeRef_TYPE_NAME_MAP: "map", openfgav1.ConditionParamTypeRef_TYPE_NAME_LIST: "list",
		openfgav1.ConditionParamTypeRef_TYPE_NAME_IPADDRESS: "ipaddress",
	}
	s := names[p.GetTypeName()]
	if s == "list" || s == "map" {
		s += "<" + names[p.GetGenericTypes()[0].GetTypeName()] + ">"
	}
	return s
}

// verifSpecDSL is the canonical DSL text of a (non-modular) model whose names
// are concrete; relations, conditions and parameters sorted by name.
func verifSpecDSL(m *openfgav1.AuthorizationModel) string {
	var sb strings.Builder
	sb.WriteString("model\n  schema " + m.GetSchemaVersion() + "\n")
	for _, td := range m.GetTypeDefinitions() {
		sb.WriteString("\ntype " + td.GetType())
		if len(td.GetRelations()) > 0 {
			sb.WriteString("\n  relations")
			var names []string
			for n := range td.GetRelations() {
				names = append(names, n)
			}
			sort.Strings(names)
			for _, n := range names {
				var rs []*openfgav1.RelationReference
				if md := td.GetMetadata().GetRelations()[n]; md != nil {
					rs = md.GetDirectlyRelatedUserTypes()
				}
				sb.WriteString("\n    define " + n + ": " + verifSpecExpr(td.GetRelations()[n], rs, true))
			}
		}
		sb.WriteString("\n")
	}
	var cnames []string
	for n := range m.GetConditions() {
		cnames = append(cnames, n)
	}
	sort.Strings(cnames)
	for _, n := range cnames {
		c := m.GetConditions()[n]
		var pnames []string
		for p := range c.GetParameters() {
			pnames = append(pnames, p)
		}
		sort.Strings(pnames)
		var ps []string
		for _, p := range pnames {
			ps = append(ps, p+": "+verifParamTypeText(c.GetParameters()[p]))
		}
		sb.WriteString("\ncondition " + c.GetName() + "(" + strings.Join(ps, ", ") + ") {\n  " + c.GetExpression() + "\n}\n")
	}
	return sb.String()
}

var verifRestrictionMenu = [][]*openfgav1.RelationReference{
	{{Type: "user"}},
	{{Type: "user"}, {Type: "group", RelationOrWildcard: &openfgav1.RelationReference_Relation{Relation: "member"}}},
	{{Type: "user", RelationOrWildcard: &openfgav1.RelationReference_Wildcard{Wildcard: &openfgav1.Wildcard{}}}, {Type: "user", Condition: "c1"}},
	{{Type: "user", RelationOrWildcard: &openfgav1.RelationReference_Wildcard{Wildcard: &openfgav1.Wildcard{}}, Condition: "c1"}, {Type: "group", RelationOrWildcard: &openfgav1.RelationReference_Relation{Relation: "member"}, Condition: "c1"}},
}

func verifCondition(name string) *openfgav1.Condition {
	return &openfgav1.Condition{Name: name, Expression: "x < 10 && y.contains(s)", Parameters: map[string]*openfgav1.ConditionParamTypeRef{
		"x": {TypeName: openfgav1.ConditionParamTypeRef_TYPE_NAME_INT},
		"y": {TypeName: openfgav1.ConditionParamTypeRef_TYPE_NAME_LIST, GenericTypes: []*openfgav1.ConditionParamTypeRef{{TypeName: openfgav1.ConditionParamTypeRef_TYPE_NAME_STRING}}},
		"s": {TypeName: openfgav1.ConditionParamTypeRef_TYPE_NAME_STRING},
		"m": {TypeName: openfgav1.ConditionParamTypeRef_TYPE_NAME_MAP, GenericTypes: []*openfgav1.ConditionParamTypeRef{{TypeName: openfgav1.ConditionParamTypeRef_TYPE_NAME_TIMESTAMP}}},
	}}
}
