package transformer

// C14 - comparator lemmas: sortByModule is a strict weak order consistent with
// the documented key (unattributed items first and by name; attributed items by
// module, file, name).  All six / nine strings are symbolic.

import "github.com/openfga/language/pkg/go/zzverif"

type verifKey struct{ name, module, file string }

func verifGenKey(tag string, n int) verifKey {
	k := verifKey{name: zzverif.Str(tag+".name", 0, n, "ab")}
	if zzverif.Choose(tag+".attributed", 2) == 1 {
		k.module = zzverif.Str(tag+".module", 1, n, "ab")
		k.file = zzverif.Str(tag+".file", 0, n, "ab")
	} else if zzverif.Choose(tag+".file-without-module", 2) == 1 {
		k.file = zzverif.Str(tag+".file", 1, n, "ab")
	}
	return k
}

func verifCmp(a, b verifKey) int {
	return sortByModule(a.name, b.name, a.module, b.module, a.file, b.file)
}

// verifKeyLess is the documented order, written independently and branch-free.
func verifKeyLess(a, b verifKey) bool {
	aU, bU := a.module == "", b.module == ""
	bothU := zzverif.And(aU, bU)
	lessAttr := zzverif.Or(a.module < b.module,
		zzverif.And(a.module == b.module, zzverif.Or(a.file < b.file, zzverif.And(a.file == b.file, a.name < b.name))))
	return zzverif.Or(zzverif.And(bothU, a.name < b.name),
		zzverif.Or(zzverif.And(aU, zzverif.Not(bU)),
			zzverif.And(zzverif.And(zzverif.Not(aU), zzverif.Not(bU)), lessAttr)))
}

func verifKeyEq(a, b verifKey) bool {
	aU, bU := a.module == "", b.module == ""
	return zzverif.Or(zzverif.And(zzverif.And(aU, bU), a.name == b.name),
		zzverif.And(zzverif.And(zzverif.Not(aU), zzverif.Not(bU)),
			zzverif.And(a.module == b.module, zzverif.And(a.file == b.file, a.name == b.name))))
}

func verifSign(x int) int {
	switch {
	case x < 0:
		return -1
	case x > 0:
		return 1
	}
	return 0
}

// VerifC14_CmpPair: antisymmetry and agreement with the documented key.
func VerifC14_CmpPair() {
	n := zzverif.Param("N", 2)
	a, b := verifGenKey("a", n), verifGenKey("b", n)
	ab, ba := verifSign(verifCmp(a, b)), verifSign(verifCmp(b, a))
	zzverif.Assert(ab == -ba, "antisymmetric")
	zzverif.Assert(verifCmp(a, a) == 0, "reflexive-equal")
	switch ab {
	case -1:
		zzverif.Assert(verifKeyLess(a, b), "less-agrees-with-documented-key")
		zzverif.Reach("less")
	case 1:
		zzverif.Assert(verifKeyLess(b, a), "greater-agrees-with-documented-key")
		zzverif.Reach("greater")
	default:
		zzverif.Assert(verifKeyEq(a, b), "equivalent-only-for-equal-keys")
		zzverif.Reach("equal")
	}
}

// VerifC14_CmpTriple: transitivity of < and of equivalence.
func VerifC14_CmpTriple() {
	n := zzverif.Param("N", 1)
	a, b, c := verifGenKey("a", n), verifGenKey("b", n), verifGenKey("c", n)
	ab, bc, ac := verifSign(verifCmp(a, b)), verifSign(verifCmp(b, c)), verifSign(verifCmp(a, c))
	if ab < 0 && bc < 0 {
		zzverif.Assert(ac < 0, "transitive-less")
		zzverif.Reach("chain")
	}
	if ab == 0 && bc == 0 {
		zzverif.Assert(ac == 0, "transitive-equivalence")
	}
	if ab == 0 {
		zzverif.Assert(bc == ac, "equivalent-items-compare-alike")
	}
}
