package transformer

// Parser stub (DESIGN 5.3): documents are described by the harness (dDoc), and
// from the description three things are derived:
//
//   - docTree: the parse tree, built from the real generated context classes and
//     real CommonTokens exactly along OpenFGAParser.g4 (one builder function per
//     rule; comments never reach the parser because ParseDSL strips them, blank
//     and comment lines become part of the NEWLINE token);
//   - the text, which is the yield of that tree with the comments put back;
//   - docSem: the model the document denotes, read directly off the description.
//
// Under the executor verifParseDoc walks the REAL listener over the tree with
// the real ParseTreeWalkerDefault and the real error listener; natively it runs
// the real ParseDSL on the text, so every replayed witness validates the stub
// contract "the parser maps the text to this tree".

import (
	"fmt"
	"strings"

	"github.com/antlr4-go/antlr/v4"
	"github.com/hashicorp/go-multierror"
	openfgav1 "github.com/openfga/api/proto/openfga/v1"

	parser "github.com/openfga/language/pkg/go/gen"
	"github.com/openfga/language/pkg/go/zzverif"
)

type dRestr struct {
	typ      string
	wildcard bool
	rel      string
	cond     string
}

// dExpr: kind 0 direct assignment, 1 computed userset, 2 tuple-to-userset,
// 3 parenthesised expression (op + operands; parens >= 1 pairs of parentheses).
type dExpr struct {
	kind     int
	restr    []dRestr
	name     string
	from     string
	op       int // 0 single operand, 1 or, 2 and, 3 but not
	operands []*dExpr
	parens   int
}

type dRel struct {
	name string
	expr *dExpr // kind 3 with parens 0: the top-level expression
}

type dType struct {
	name    string
	extend  bool
	rels    []dRel
	comment bool // a '#' comment line in front of the declaration
}

type dParam struct {
	name      string
	typ       string
	container string
}

type dCond struct {
	name          string
	params        []dParam
	expr          []string // expression tokens (texts), joined without separator
	closeSameLine bool     // the closing brace stands on the last expression line
	swallows      bool     // the expression runs on into the declaration of another condition (its closing brace is missing)
}

type dDoc struct {
	module string // "" = model header
	schema string
	types  []dType
	conds  []dCond
	full   bool   // layout: every optional blank present, wider indentation
	style  int    // 2: exactly the printer's layout (blank line before types and conditions, final line break)
	omit   string // error-recovery variant: a required part that is missing from text and tree
}

type adder interface {
	antlr.ParserRuleContext
	AddTokenNode(antlr.Token) *antlr.TerminalNodeImpl
	AddChild(antlr.RuleContext) antlr.RuleContext
}

type tb struct {
	p     antlr.Parser
	pair  *antlr.TokenSourceCharStreamPair
	toks  []antlr.Token
	text  []string // native text pieces (with comments put back)
	line  int
	col   int
	pos   int
	full  bool
	style int
	omit  string
	names map[string]antlr.Token // name tokens by role ("type:0", "rel:0:1", "cond:0", "param:0:1")
}

func (b *tb) tok(tt int, text string, native string) antlr.Token {
	t := antlr.CommonTokenFactoryDEFAULT.Create(b.pair, tt, text, antlr.TokenDefaultChannel, b.pos, b.pos+len(text)-1, b.line, b.col)
	b.toks = append(b.toks, t)
	b.text = append(b.text, native)
	b.pos += len(text)
	nl := strings.LastIndex(text, "\n")
	if nl >= 0 {
		b.line += strings.Count(text, "\n")
		b.col = len(text) - nl - 1
	} else {
		b.col += len(text)
	}
	return t
}

func (b *tb) add(c adder, tt int, text string) antlr.Token {
	t := b.tok(tt, text, text)
	c.AddTokenNode(t)
	return t
}

func (b *tb) ws(c adder) { b.add(c, parser.OpenFGAParserWHITESPACE, " ") }

func (b *tb) optws(c adder) {
	if b.full {
		b.add(c, parser.OpenFGAParserWHITESPACE, "  ")
	}
}

// nl: a line break with the indentation of the next line; comment puts a
// comment line in between (natively "# c", which the pre-pass blanks).
func (b *tb) nl(c adder, indent int, comment bool) { b.nlx(c, indent, comment, false) }

func (b *tb) nlx(c adder, indent int, comment bool, blank bool) {
	ind := strings.Repeat(" ", indent)
	if b.full {
		ind += ind
	}
	text := "\n" + ind
	if b.style == 2 && indent == 0 && blank {
		text = "\n\n"
	}
	native := text
	if comment {
		text = "\n\n" + ind
		native = "\n" + ind + "# c\n" + ind
	}
	t := b.tok(parser.OpenFGAParserNEWLINE, text, native)
	c.AddTokenNode(t)
}

func (b *tb) span(c antlr.ParserRuleContext, from int) {
	if from < len(b.toks) {
		c.SetStart(b.toks[from])
		c.SetStop(b.toks[len(b.toks)-1])
	}
}

var verifKeywordTokens = map[string]int{"model": parser.OpenFGAParserMODEL, "schema": parser.OpenFGAParserSCHEMA, "type": parser.OpenFGAParserTYPE,
	"relation": parser.OpenFGAParserRELATION, "module": parser.OpenFGAParserMODULE, "extend": parser.OpenFGAParserEXTEND}

func (b *tb) identifier(parent antlr.ParserRuleContext, name string) *parser.IdentifierContext {
	c := parser.NewIdentifierContext(b.p, parent, 0)
	from := len(b.toks)
	tt := parser.OpenFGAParserIDENTIFIER
	if k, isKw := verifKeywordTokens[name]; isKw {
		tt = k
	}
	b.add(c, tt, name)
	b.span(c, from)
	return c
}

func (b *tb) extID(parent antlr.ParserRuleContext, name string) *parser.Extended_identifierContext {
	c := parser.NewExtended_identifierContext(b.p, parent, 0)
	from := len(b.toks)
	c.AddChild(b.identifier(c, name))
	b.span(c, from)
	return c
}

func (b *tb) restriction(parent antlr.ParserRuleContext, r dRestr) *parser.RelationDefTypeRestrictionContext {
	c := parser.NewRelationDefTypeRestrictionContext(b.p, parent, 0)
	from := len(b.toks)
	base := parser.NewRelationDefTypeRestrictionBaseContext(b.p, c, 0)
	bfrom := len(b.toks)
	ty := b.extID(base, r.typ)
	base.AddChild(ty)
	base.SetRelationDefTypeRestrictionType(ty)
	if r.wildcard {
		b.add(base, parser.OpenFGAParserCOLON, ":")
		base.SetRelationDefTypeRestrictionWildcard(b.add(base, parser.OpenFGAParserSTAR, "*"))
	} else if r.rel != "" {
		b.add(base, parser.OpenFGAParserHASH, "#")
		rel := b.extID(base, r.rel)
		base.AddChild(rel)
		base.SetRelationDefTypeRestrictionRelation(rel)
	}
	b.span(base, bfrom)
	c.AddChild(base)
	if r.cond != "" {
		b.ws(c)
		b.add(c, parser.OpenFGAParserKEYWORD_WITH, "with")
		b.ws(c)
		cn := parser.NewConditionNameContext(b.p, c, 0)
		cfrom := len(b.toks)
		b.add(cn, parser.OpenFGAParserIDENTIFIER, r.cond)
		b.span(cn, cfrom)
		c.AddChild(cn)
	}
	b.span(c, from)
	return c
}

func (b *tb) direct(parent antlr.ParserRuleContext, rs []dRestr) *parser.RelationDefDirectAssignmentContext {
	c := parser.NewRelationDefDirectAssignmentContext(b.p, parent, 0)
	from := len(b.toks)
	b.add(c, parser.OpenFGAParserLBRACKET, "[")
	b.optws(c)
	for i, r := range rs {
		if i > 0 {
			b.add(c, parser.OpenFGAParserCOMMA, ",")
			b.ws(c)
		}
		c.AddChild(b.restriction(c, r))
		b.optws(c)
	}
	b.add(c, parser.OpenFGAParserRPRACKET, "]")
	b.span(c, from)
	return c
}

func (b *tb) grouping(parent antlr.ParserRuleContext, e *dExpr) *parser.RelationDefGroupingContext {
	c := parser.NewRelationDefGroupingContext(b.p, parent, 0)
	from := len(b.toks)
	rw := parser.NewRelationDefRewriteContext(b.p, c, 0)
	cu := b.extID(rw, e.name)
	rw.AddChild(cu)
	rw.SetRewriteComputedusersetName(cu)
	if e.kind == 2 {
		b.ws(rw)
		b.add(rw, parser.OpenFGAParserFROM, "from")
		b.ws(rw)
		ts := b.extID(rw, e.from)
		rw.AddChild(ts)
		rw.SetRewriteTuplesetName(ts)
	}
	b.span(rw, from)
	c.AddChild(rw)
	b.span(c, from)
	return c
}

var verifOpTokens = []int{0, parser.OpenFGAParserOR, parser.OpenFGAParserAND, parser.OpenFGAParserBUT_NOT}
var verifOpTexts = []string{"", "or", "and", "but not"}

func (b *tb) partials(parent antlr.ParserRuleContext, op int, rest []*dExpr) *parser.RelationDefPartialsContext {
	c := parser.NewRelationDefPartialsContext(b.p, parent, 0)
	from := len(b.toks)
	for _, e := range rest {
		b.ws(c)
		b.add(c, verifOpTokens[op], verifOpTexts[op])
		b.ws(c)
		if e.kind == 3 {
			c.AddChild(b.recurseNoDirect(c, e, e.parens))
		} else {
			c.AddChild(b.grouping(c, e))
		}
	}
	b.span(c, from)
	return c
}

// relationDef: (direct | grouping | relationRecurse) partials?
func (b *tb) relationDef(parent antlr.ParserRuleContext, e *dExpr) *parser.RelationDefContext {
	c := parser.NewRelationDefContext(b.p, parent, 0)
	from := len(b.toks)
	first := e.operands[0]
	switch first.kind {
	case 0:
		c.AddChild(b.direct(c, first.restr))
	case 3:
		c.AddChild(b.recurse(c, first, first.parens))
	default:
		c.AddChild(b.grouping(c, first))
	}
	if len(e.operands) > 1 {
		c.AddChild(b.partials(c, e.op, e.operands[1:]))
	}
	b.span(c, from)
	return c
}

// relationDefNoDirect: (grouping | relationRecurseNoDirect) partials?
func (b *tb) relationDefNoDirect(parent antlr.ParserRuleContext, e *dExpr) *parser.RelationDefNoDirectContext {
	c := parser.NewRelationDefNoDirectContext(b.p, parent, 0)
	from := len(b.toks)
	first := e.operands[0]
	if first.kind == 3 {
		c.AddChild(b.recurseNoDirect(c, first, first.parens))
	} else {
		c.AddChild(b.grouping(c, first))
	}
	if len(e.operands) > 1 {
		c.AddChild(b.partials(c, e.op, e.operands[1:]))
	}
	b.span(c, from)
	return c
}

// relationRecurse: '(' WS* (relationDef | relationRecurseNoDirect) WS* ')' - the
// parser resolves the ambiguity in favour of relationDef, extra pairs of
// parentheses nest through relationDef -> relationRecurse.
func (b *tb) recurse(parent antlr.ParserRuleContext, e *dExpr, parens int) *parser.RelationRecurseContext {
	c := parser.NewRelationRecurseContext(b.p, parent, 0)
	from := len(b.toks)
	b.add(c, parser.OpenFGAParserLPAREN, "(")
	b.optws(c)
	if parens > 1 {
		inner := parser.NewRelationDefContext(b.p, c, 0)
		ifrom := len(b.toks)
		inner.AddChild(b.recurse(inner, e, parens-1))
		b.span(inner, ifrom)
		c.AddChild(inner)
	} else {
		c.AddChild(b.relationDef(c, e))
	}
	b.optws(c)
	b.add(c, parser.OpenFGAParserRPAREN, ")")
	b.span(c, from)
	return c
}

func (b *tb) recurseNoDirect(parent antlr.ParserRuleContext, e *dExpr, parens int) *parser.RelationRecurseNoDirectContext {
	c := parser.NewRelationRecurseNoDirectContext(b.p, parent, 0)
	from := len(b.toks)
	b.add(c, parser.OpenFGAParserLPAREN, "(")
	b.optws(c)
	if parens > 1 {
		inner := parser.NewRelationDefNoDirectContext(b.p, c, 0)
		ifrom := len(b.toks)
		inner.AddChild(b.recurseNoDirect(inner, e, parens-1))
		b.span(inner, ifrom)
		c.AddChild(inner)
	} else {
		c.AddChild(b.relationDefNoDirect(c, e))
	}
	b.optws(c)
	b.add(c, parser.OpenFGAParserRPAREN, ")")
	b.span(c, from)
	return c
}

func (b *tb) relationDecl(parent antlr.ParserRuleContext, r dRel, key string) *parser.RelationDeclarationContext {
	c := parser.NewRelationDeclarationContext(b.p, parent, 0)
	from := len(b.toks)
	b.nl(c, 4, false)
	b.add(c, parser.OpenFGAParserDEFINE, "define")
	b.ws(c)
	if b.omit != "relation-name" {
		rn := parser.NewRelationNameContext(b.p, c, 0)
		rfrom := len(b.toks)
		rn.AddChild(b.extID(rn, r.name))
		b.names[key] = b.toks[rfrom]
		b.span(rn, rfrom)
		c.AddChild(rn)
	}
	b.optws(c)
	b.add(c, parser.OpenFGAParserCOLON, ":")
	b.ws(c)
	if b.omit != "relation-def" {
		c.AddChild(b.relationDef(c, r.expr))
	}
	b.span(c, from)
	return c
}

func (b *tb) typeDef(parent antlr.ParserRuleContext, t dType, idx int) *parser.TypeDefContext {
	c := parser.NewTypeDefContext(b.p, parent, 0)
	from := len(b.toks)
	b.nlx(c, 0, t.comment, true)
	if idx == 0 {
		// the blank line after the header belongs to this NEWLINE token
		_ = idx
	}
	if t.extend {
		b.add(c, parser.OpenFGAParserEXTEND, "extend")
		b.ws(c)
	}
	b.add(c, parser.OpenFGAParserTYPE, "type")
	b.ws(c)
	if !(b.omit == "type-name" && idx == 1) {
		nfrom := len(b.toks)
		tn := b.extID(c, t.name)
		b.names[keyOf("type", idx, -1)] = b.toks[nfrom]
		c.AddChild(tn)
		c.SetTypeName(tn)
	}
	if len(t.rels) > 0 {
		b.nl(c, 2, false)
		b.add(c, parser.OpenFGAParserRELATIONS, "relations")
		for j, r := range t.rels {
			c.AddChild(b.relationDecl(c, r, keyOf("rel", idx, j)))
		}
	}
	b.span(c, from)
	return c
}

func keyOf(kind string, i, j int) string {
	s := kind + ":" + string(rune('0'+i))
	if j >= 0 {
		s += ":" + string(rune('0'+j))
	}
	return s
}

func (b *tb) condition(parent antlr.ParserRuleContext, cd dCond, idx int) *parser.ConditionContext {
	c := parser.NewConditionContext(b.p, parent, 0)
	from := len(b.toks)
	b.nlx(c, 0, false, true)
	b.add(c, parser.OpenFGAParserCONDITION, "condition")
	b.ws(c)
	if b.omit != "condition-name" {
		cn := parser.NewConditionNameContext(b.p, c, 0)
		cfrom := len(b.toks)
		b.names[keyOf("cond", idx, -1)] = b.add(cn, parser.OpenFGAParserIDENTIFIER, cd.name)
		b.span(cn, cfrom)
		c.AddChild(cn)
	}
	b.add(c, parser.OpenFGAParserLPAREN, "(")
	for j, p := range cd.params {
		if j > 0 {
			b.add(c, parser.OpenFGAParserCOMMA, ",")
			b.ws(c)
		}
		pc := parser.NewConditionParameterContext(b.p, c, 0)
		pfrom := len(b.toks)
		pn := parser.NewParameterNameContext(b.p, pc, 0)
		b.names[keyOf("param", idx, j)] = b.add(pn, parser.OpenFGAParserIDENTIFIER, p.name)
		b.span(pn, pfrom)
		pc.AddChild(pn)
		if b.omit == "param-colon-type" {
			// `condition c(x) {`: a parameter name and nothing else
			b.span(pc, pfrom)
			c.AddChild(pc)
			continue
		}
		b.add(pc, parser.OpenFGAParserCOLON, ":")
		b.ws(pc)
		if b.omit == "param-type" {
			b.span(pc, pfrom)
			c.AddChild(pc)
			continue
		}
		pt := parser.NewParameterTypeContext(b.p, pc, 0)
		tfrom := len(b.toks)
		if p.container != "" {
			b.add(pt, parser.OpenFGAParserCONDITION_PARAM_CONTAINER, p.container)
			b.add(pt, parser.OpenFGAParserLESS, "<")
			b.add(pt, parser.OpenFGAParserCONDITION_PARAM_TYPE, p.typ)
			b.add(pt, parser.OpenFGAParserGREATER, ">")
		} else {
			b.add(pt, parser.OpenFGAParserCONDITION_PARAM_TYPE, p.typ)
		}
		b.span(pt, tfrom)
		pc.AddChild(pt)
		b.span(pc, pfrom)
		c.AddChild(pc)
	}
	b.add(c, parser.OpenFGAParserRPAREN, ")")
	b.ws(c)
	b.add(c, parser.OpenFGAParserLBRACE, "{")
	b.nl(c, 2, false)
	ce := parser.NewConditionExpressionContext(b.p, c, 0)
	efrom := len(b.toks)
	for _, piece := range cd.expr {
		tt := parser.OpenFGAParserIDENTIFIER
		switch piece {
		case " ":
			tt = parser.OpenFGAParserWHITESPACE
		case "<":
			tt = parser.OpenFGAParserLESS
		case "&&":
			tt = parser.OpenFGAParserLOGICAL_AND
		case "==":
			tt = parser.OpenFGAParserEQUALS
		case "1", "0", "2":
			tt = parser.OpenFGAParserNUM_INT
		case "%":
			tt = parser.OpenFGAParserPERCENT
		case "\"100%\"", "\"%s%d\"":
			tt = parser.OpenFGAParserSTRING
		case "\n  ", "\n\n":
			tt = parser.OpenFGAParserNEWLINE
		case "condition":
			tt = parser.OpenFGAParserCONDITION
		case "(":
			tt = parser.OpenFGAParserLPAREN
		case ")":
			tt = parser.OpenFGAParserRPAREN
		case ":":
			tt = parser.OpenFGAParserCOLON
		case "int":
			tt = parser.OpenFGAParserCONDITION_PARAM_TYPE
		case "{":
			tt = parser.OpenFGAParserLBRACE
		}
		tok := b.add(ce, tt, piece)
		if piece == "condition" {
			// where an error about the swallowed declaration has to point
			b.names[keyOf("swallowed", idx, -1)] = tok
		}
	}
	// the expression rule also swallows the line break (or the blank) in front of the closing brace
	if cd.closeSameLine {
		b.add(ce, parser.OpenFGAParserWHITESPACE, " ")
	} else {
		b.nl(ce, 0, false)
	}
	b.span(ce, efrom)
	c.AddChild(ce)
	b.add(c, parser.OpenFGAParserRBRACE, "}")
	b.span(c, from)
	return c
}

// docTree builds the parse tree of d and returns it with the builder (tokens,
// text, name tokens).
func docTree(d *dDoc) (*parser.MainContext, *tb) {
	b := &tb{p: parser.NewOpenFGAParser(nil), pair: &antlr.TokenSourceCharStreamPair{}, line: 1, full: d.full, style: d.style, omit: d.omit, names: map[string]antlr.Token{}}
	m := parser.NewMainContext(b.p, nil, 0)
	if d.module == "" {
		h := parser.NewModelHeaderContext(b.p, m, 0)
		b.add(h, parser.OpenFGAParserMODEL, "model")
		b.nl(h, 2, false)
		b.add(h, parser.OpenFGAParserSCHEMA, "schema")
		b.ws(h)
		if d.omit != "schema-version" {
			h.SetSchemaVersion(b.add(h, parser.OpenFGAParserSCHEMA_VERSION, d.schema))
		}
		b.span(h, 0)
		m.AddChild(h)
	} else {
		h := parser.NewModuleHeaderContext(b.p, m, 0)
		b.add(h, parser.OpenFGAParserMODULE, "module")
		if d.omit != "module-name" {
			b.ws(h)
			id := b.identifier(h, d.module)
			h.AddChild(id)
			h.SetModuleName(id)
		}
		b.span(h, 0)
		m.AddChild(h)
	}
	tds := parser.NewTypeDefsContext(b.p, m, 0)
	tfrom := len(b.toks)
	for i, t := range d.types {
		tds.AddChild(b.typeDef(tds, t, i))
	}
	b.span(tds, tfrom)
	m.AddChild(tds)
	cs := parser.NewConditionsContext(b.p, m, 0)
	cfrom := len(b.toks)
	for i, c := range d.conds {
		cs.AddChild(b.condition(cs, c, i))
	}
	b.span(cs, cfrom)
	m.AddChild(cs)
	b.span(m, 0)
	// the end-of-file token closes `main` (it carries no text)
	m.AddTokenNode(antlr.CommonTokenFactoryDEFAULT.Create(b.pair, antlr.TokenEOF, "<EOF>", antlr.TokenDefaultChannel, b.pos, b.pos-1, b.line, b.col))
	if d.style == 2 {
		b.text = append(b.text, "\n")
	}
	return m, b
}

// verifParseDoc: the model (or the errors) for document d.  Executor: real
// listener over the generated tree.  Native: real ParseDSL on the text.
// verifTreeConforms: every rule context of the tree has a child sequence that the sub-automaton of its rule in the
// parser's own ATN (deserialised from pkg/go/gen/openfga_parser.go) accepts - the generated tree is a tree of the grammar.
func verifTreeConforms(ctx antlr.ParserRuleContext, atn *antlr.ATN) bool {
	var isRule []bool
	var vals []int
	ok := true
	for _, c := range ctx.GetChildren() {
		switch x := c.(type) {
		case antlr.TerminalNode:
			isRule = append(isRule, false)
			vals = append(vals, x.GetSymbol().GetTokenType())
		case antlr.ParserRuleContext:
			isRule = append(isRule, true)
			vals = append(vals, x.GetRuleIndex())
			if !verifTreeConforms(x, atn) {
				ok = false
			}
		default:
			ok = false
		}
	}
	if ok && !antlr.VerifRuleAccepts(atn, ctx.GetRuleIndex(), isRule, vals) {
		desc := fmt.Sprintf("rule %d children", ctx.GetRuleIndex())
		for i := range vals {
			if isRule[i] {
				desc += fmt.Sprintf(" r%d", vals[i])
			} else {
				desc += fmt.Sprintf(" t%d", vals[i])
			}
		}
		zzverif.Class("generated-tree-is-a-tree-of-the-grammar", desc)
		return false
	}
	return ok
}

func verifParseDoc(d *dDoc) (*OpenFgaDslListener, *multierror.Error, *tb) {
	zzverif.Stub("ParseDSL lexer+parser = grammar-conforming parse tree of the generated document (validated natively per witness)")
	tree, b := docTree(d)
	if d.omit == "" && zzverif.Param("CONFORM", 0) == 1 {
		zzverif.Assert(verifTreeConforms(tree, b.p.GetATN()), "generated-tree-is-a-tree-of-the-grammar")
		zzverif.Reach("tree-conforms")
	}
	if !zzverif.Symbolic() {
		l, el := ParseDSL(strings.Join(b.text, ""))
		return l, el.Errors, b
	}
	el := newOpenFgaDslErrorListener()
	b.p.RemoveErrorListeners()
	b.p.AddErrorListener(el)
	l := newOpenFgaDslListener()
	antlr.ParseTreeWalkerDefault.Walk(l, tree)
	return l, el.Errors, b
}

// ---- the meaning of a document, read off the description

func semExpr(e *dExpr, restr *[]*openfgav1.RelationReference) *openfgav1.Userset {
	switch e.kind {
	case 0:
		for _, r := range e.restr {
			ref := &openfgav1.RelationReference{Type: r.typ, Condition: r.cond}
			if r.wildcard {
				ref.RelationOrWildcard = &openfgav1.RelationReference_Wildcard{Wildcard: &openfgav1.Wildcard{}}
			} else if r.rel != "" {
				ref.RelationOrWildcard = &openfgav1.RelationReference_Relation{Relation: r.rel}
			}
			*restr = append(*restr, ref)
		}
		return verifThis()
	case 1:
		return verifComputed(e.name)
	case 2:
		return verifTTU(e.name, e.from)
	}
	var cs []*openfgav1.Userset
	for _, o := range e.operands {
		cs = append(cs, semExpr(o, restr))
	}
	if len(cs) == 1 {
		return cs[0]
	}
	switch e.op {
	case 1:
		return &openfgav1.Userset{Userset: &openfgav1.Userset_Union{Union: &openfgav1.Usersets{Child: cs}}}
	case 2:
		return &openfgav1.Userset{Userset: &openfgav1.Userset_Intersection{Intersection: &openfgav1.Usersets{Child: cs}}}
	}
	return &openfgav1.Userset{Userset: &openfgav1.Userset_Difference{Difference: &openfgav1.Difference{Base: cs[0], Subtract: cs[1]}}}
}

// verifSameUserset: structural equality of rewrites (names may be symbolic).
func verifSameUserset(a, b *openfgav1.Userset) bool {
	switch x := a.GetUserset().(type) {
	case *openfgav1.Userset_This:
		_, ok := b.GetUserset().(*openfgav1.Userset_This)
		return ok
	case *openfgav1.Userset_ComputedUserset:
		y, ok := b.GetUserset().(*openfgav1.Userset_ComputedUserset)
		return ok && x.ComputedUserset.GetRelation() == y.ComputedUserset.GetRelation()
	case *openfgav1.Userset_TupleToUserset:
		y, ok := b.GetUserset().(*openfgav1.Userset_TupleToUserset)
		return ok && x.TupleToUserset.GetComputedUserset().GetRelation() == y.TupleToUserset.GetComputedUserset().GetRelation() &&
			x.TupleToUserset.GetTupleset().GetRelation() == y.TupleToUserset.GetTupleset().GetRelation()
	case *openfgav1.Userset_Union:
		y, ok := b.GetUserset().(*openfgav1.Userset_Union)
		return ok && verifSameChildren(x.Union.GetChild(), y.Union.GetChild())
	case *openfgav1.Userset_Intersection:
		y, ok := b.GetUserset().(*openfgav1.Userset_Intersection)
		return ok && verifSameChildren(x.Intersection.GetChild(), y.Intersection.GetChild())
	case *openfgav1.Userset_Difference:
		y, ok := b.GetUserset().(*openfgav1.Userset_Difference)
		return ok && verifSameUserset(x.Difference.GetBase(), y.Difference.GetBase()) && verifSameUserset(x.Difference.GetSubtract(), y.Difference.GetSubtract())
	}
	return a == nil && b == nil
}

func verifSameChildren(a, b []*openfgav1.Userset) bool {
	if len(a) != len(b) {
		return false
	}
	for i := range a {
		if !verifSameUserset(a[i], b[i]) {
			return false
		}
	}
	return true
}

func verifSameRestrictions(a, b []*openfgav1.RelationReference) bool {
	if len(a) != len(b) {
		return false
	}
	for i := range a {
		if a[i].GetType() != b[i].GetType() || a[i].GetRelation() != b[i].GetRelation() || a[i].GetCondition() != b[i].GetCondition() ||
			(a[i].GetWildcard() != nil) != (b[i].GetWildcard() != nil) {
			return false
		}
	}
	return true
}

// VerifWarmupParser runs once per executor worker: the parser's static data
// (the deserialised ATN) is built here and shared read-only by all paths.
func VerifWarmupParser() {
	parser.NewOpenFGAParser(nil)
}
