package transformer

// C08, work clause, printer side: nested rewrites of depth d (n = number of nodes, growing linearly
// with d); a printer that visits a child more than once per level (e.g. once to test and once to
// print) is exponential in d.

import (
	"strconv"

	openfgav1 "github.com/openfga/api/proto/openfga/v1"

	"github.com/openfga/language/pkg/go/zzverif"
)

func wNest(shape, d int) (*openfgav1.Userset, int) {
	if d == 0 {
		return verifComputed("b"), 1
	}
	inner, n := wNest(shape, d-1)
	leaf := verifComputed("b")
	ttu := verifTTU("b", "p")
	kids := []*openfgav1.Userset{leaf, inner}
	if shape&1 == 1 {
		kids = []*openfgav1.Userset{inner, ttu}
	}
	// shapes 0..5 alternate the operators, shapes 6..11 use one operator on every level
	op := (d + shape/2) % 3
	if shape >= 6 {
		op = shape/2 - 3
	}
	switch op {
	case 0:
		return &openfgav1.Userset{Userset: &openfgav1.Userset_Union{Union: &openfgav1.Usersets{Child: kids}}}, n + 2
	case 1:
		return &openfgav1.Userset{Userset: &openfgav1.Userset_Intersection{Intersection: &openfgav1.Usersets{Child: kids}}}, n + 2
	}
	return &openfgav1.Userset{Userset: &openfgav1.Userset_Difference{Difference: &openfgav1.Difference{Base: kids[0], Subtract: kids[1]}}}, n + 2
}

func VerifC08_PrinterWork() {
	shape := zzverif.Choose("shape", 12)
	d := 1 + zzverif.Choose("depth", zzverif.Param("D", 12))
	x, n := wNest(shape, d)
	rels := map[string]*openfgav1.Userset{"b": verifThis(), "p": verifThis(), "x": x}
	meta := map[string]*openfgav1.RelationMetadata{
		"b": {DirectlyRelatedUserTypes: []*openfgav1.RelationReference{{Type: "user"}}},
		"p": {DirectlyRelatedUserTypes: []*openfgav1.RelationReference{{Type: "doc"}}}}
	// further relations that use x, so that the size of the model grows in both directions
	for i := 0; i < d; i++ {
		rels["y"+strconv.Itoa(i)] = verifComputed("x")
		n++
	}
	m := &openfgav1.AuthorizationModel{SchemaVersion: "1.1", TypeDefinitions: []*openfgav1.TypeDefinition{
		{Type: "user"}, {Type: "doc", Relations: rels, Metadata: &openfgav1.Metadata{Relations: meta}}}}
	budget := zzverif.Param("WA", 100000) + zzverif.Param("WB", 1000)*n*n
	if zzverif.Param("MEASURE", 0) == 1 {
		budget = 1 << 40
	}
	zzverif.Budget("printer-work-within-quadratic-bound", budget)
	dsl, err := TransformJSONProtoToDSL(m)
	used := zzverif.BudgetEnd()
	if zzverif.Param("MEASURE", 0) == 1 {
		zzverif.Observe("printer shape="+strconv.Itoa(shape)+" d="+strconv.Itoa(d)+" n="+strconv.Itoa(n), strconv.Itoa(used))
	}
	if err == nil {
		zzverif.Assert(dsl != "", "result-or-error")
		zzverif.Reach("printed")
	} else {
		zzverif.Reach("rejected")
	}
}

// VerifC08_MergeWork: F module files; file i declares type t<i> (two relations) and extends the type
// of file i-1 by one relation; variant 1 makes every file also re-declare type t0 and re-add the same
// relation to it (F conflicts, each with its line lookups).  n = number of declarations.
func VerifC08_MergeWork() {
	variant := zzverif.Choose("variant", 2)
	f := 1 + zzverif.Choose("files", zzverif.Param("D", 12))
	var files []*mFile
	n := 0
	for i := 0; i < f; i++ {
		mf := &mFile{name: "f" + strconv.Itoa(i) + ".fga", module: "m" + strconv.Itoa(i)}
		mf.decls = append(mf.decls, mDecl{name: "t" + strconv.Itoa(i), rels: []mRel{{name: "x", form: 0}, {name: "y", form: 2}}})
		n += 3
		if i > 0 {
			mf.decls = append(mf.decls, mDecl{extend: true, name: "t" + strconv.Itoa(i-1), rels: []mRel{{name: "e" + strconv.Itoa(i), form: 1}}})
			n += 2
			if variant == 1 {
				mf.decls = append(mf.decls, mDecl{name: "t0"}, mDecl{extend: true, name: "t0", rels: []mRel{{name: "x", form: 0}}})
				n += 3
			}
		}
		mf.conds = append(mf.conds, mCond{name: "c" + strconv.Itoa(i)})
		n++
		mf.render()
		files = append(files, mf)
	}
	mFiles, mStubCalls = files, 0
	budget := zzverif.Param("WA", 100000) + zzverif.Param("WB", 1000)*n*n
	if zzverif.Param("MEASURE", 0) == 1 {
		budget = 1 << 40
	}
	zzverif.Budget("merge-work-within-quadratic-bound", budget)
	m, err := TransformModuleFilesToModel(mModules(files), "1.2")
	used := zzverif.BudgetEnd()
	if zzverif.Param("MEASURE", 0) == 1 {
		zzverif.Observe("merge shape="+strconv.Itoa(variant)+" d="+strconv.Itoa(f)+" n="+strconv.Itoa(n), strconv.Itoa(used))
	}
	if err == nil {
		zzverif.Assert(m != nil, "result-or-error")
		zzverif.Reach("merged")
	} else {
		zzverif.Reach("rejected")
	}
}
