package transformer

// C08, work clause, printer side: nested rewrites of depth d (n = number of nodes, growing linearly
// with d); a printer that visits a child more than once per level (e.g. once to test and once to
// print) is exponential in d.

import (
	"strconv"
	"strings"

	"github.com/antlr4-go/antlr/v4"
	"github.com/hashicorp/go-multierror"

	openfgav1 "github.com/openfga/api/proto/openfga/v1"

	"github.com/openfga/language/pkg/go/zzverif"
)

func wNest(shape, d int) (*openfgav1.Userset, int) {
	if d == 0 {
		return verifComputed("b"), 1
	}
	inner, n := wNest(shape, d-1)
	leaf := verifComputed("b")
	ttu := verifTTU("b", "p")
	kids := []*openfgav1.Userset{leaf, inner}
	if shape&1 == 1 {
		kids = []*openfgav1.Userset{inner, ttu}
	}
	// shapes 0..5 alternate the operators, shapes 6..11 use one operator on every level
	op := (d + shape/2) % 3
	if shape >= 6 {
		op = shape/2 - 3
	}
	switch op {
	case 0:
		return &openfgav1.Userset{Userset: &openfgav1.Userset_Union{Union: &openfgav1.Usersets{Child: kids}}}, n + 2
	case 1:
		return &openfgav1.Userset{Userset: &openfgav1.Userset_Intersection{Intersection: &openfgav1.Usersets{Child: kids}}}, n + 2
	}
	return &openfgav1.Userset{Userset: &openfgav1.Userset_Difference{Difference: &openfgav1.Difference{Base: kids[0], Subtract: kids[1]}}}, n + 2
}

func VerifC08_PrinterWork() {
	shape := zzverif.Choose("shape", 12)
	d := 1 + zzverif.Choose("depth", zzverif.Param("D", 12))
	x, n := wNest(shape, d)
	rels := map[string]*openfgav1.Userset{"b": verifThis(), "p": verifThis(), "x": x}
	meta := map[string]*openfgav1.RelationMetadata{
		"b": {DirectlyRelatedUserTypes: []*openfgav1.RelationReference{{Type: "user"}}},
		"p": {DirectlyRelatedUserTypes: []*openfgav1.RelationReference{{Type: "doc"}}}}
	// further relations that use x, so that the size of the model grows in both directions
	for i := 0; i < d; i++ {
		rels["y"+strconv.Itoa(i)] = verifComputed("x")
		n++
	}
	m := &openfgav1.AuthorizationModel{SchemaVersion: "1.1", TypeDefinitions: []*openfgav1.TypeDefinition{
		{Type: "user"}, {Type: "doc", Relations: rels, Metadata: &openfgav1.Metadata{Relations: meta}}}}
	budget := zzverif.Param("WA", 100000) + zzverif.Param("WB", 1000)*n*n
	if zzverif.Param("MEASURE", 0) == 1 {
		budget = 1 << 40
	}
	zzverif.Budget("printer-work-within-quadratic-bound", budget)
	dsl, err := TransformJSONProtoToDSL(m)
	used := zzverif.BudgetEnd()
	if zzverif.Param("MEASURE", 0) == 1 {
		zzverif.Observe("printer shape="+strconv.Itoa(shape)+" d="+strconv.Itoa(d)+" n="+strconv.Itoa(n), strconv.Itoa(used))
	}
	if err == nil {
		zzverif.Assert(dsl != "", "result-or-error")
		zzverif.Reach("printed")
	} else {
		zzverif.Reach("rejected")
	}
}

// VerifC08_MergeWork: F module files; file i declares type t<i> (two relations) and extends the type
// of file i-1 by one relation; variant 1 makes every file also re-declare type t0 and re-add the same
// relation to it (F conflicts, each with its line lookups).  n = number of declarations.
func VerifC08_MergeWork() {
	variant := zzverif.Choose("variant", 2)
	f := 1 + zzverif.Choose("files", zzverif.Param("D", 12))
	var files []*mFile
	n := 0
	for i := 0; i < f; i++ {
		mf := &mFile{name: "f" + strconv.Itoa(i) + ".fga", module: "m" + strconv.Itoa(i)}
		mf.decls = append(mf.decls, mDecl{name: "t" + strconv.Itoa(i), rels: []mRel{{name: "x", form: 0}, {name: "y", form: 2}}})
		n += 3
		if i > 0 {
			mf.decls = append(mf.decls, mDecl{extend: true, name: "t" + strconv.Itoa(i-1), rels: []mRel{{name: "e" + strconv.Itoa(i), form: 1}}})
			n += 2
			if variant == 1 {
				mf.decls = append(mf.decls, mDecl{name: "t0"}, mDecl{extend: true, name: "t0", rels: []mRel{{name: "x", form: 0}}})
				n += 3
			}
		}
		mf.conds = append(mf.conds, mCond{name: "c" + strconv.Itoa(i)})
		n++
		mf.render()
		files = append(files, mf)
	}
	mFiles, mStubCalls = files, 0
	budget := zzverif.Param("WA", 100000) + zzverif.Param("WB", 1000)*n*n
	if zzverif.Param("MEASURE", 0) == 1 {
		budget = 1 << 40
	}
	zzverif.Budget("merge-work-within-quadratic-bound", budget)
	m, err := TransformModuleFilesToModel(mModules(files), "1.2")
	used := zzverif.BudgetEnd()
	if zzverif.Param("MEASURE", 0) == 1 {
		zzverif.Observe("merge shape="+strconv.Itoa(variant)+" d="+strconv.Itoa(f)+" n="+strconv.Itoa(n), strconv.Itoa(used))
	}
	if err == nil {
		zzverif.Assert(m != nil, "result-or-error")
		zzverif.Reach("merged")
	} else {
		zzverif.Reach("rejected")
	}
}

// VerifC08_ListenerWork: the listener half of DSL -> model on nested parenthesised expressions of depth
// d plus d further relations and d conditions (n = number of expression leaves, relations and
// conditions).  Under the executor the budget covers the walk of the real listener over the generated
// tree (tree construction is outside); natively it covers the real ParseDSL on the text, so that a
// flagged blow-up is confirmed against lexer, parser and listener together.
func VerifC08_ListenerWork() {
	shape := zzverif.Choose("shape", 6)
	d := 1 + zzverif.Choose("depth", zzverif.Param("D", 12))
	var e *dExpr = &dExpr{kind: 1, name: "b"}
	n := 1
	for i := 0; i < d; i++ {
		op := 1 + (i+shape)%3
		if shape >= 3 {
			op = shape - 2
		}
		kids := []*dExpr{{kind: 1, name: "b"}, e}
		if i%2 == 1 && op != 3 {
			kids = []*dExpr{e, {kind: 2, name: "b", from: "p"}}
		}
		e = &dExpr{kind: 3, op: op, operands: kids, parens: 1}
		n += 2
	}
	e.parens = 0
	doc := &dDoc{schema: "1.1", full: false}
	doc.types = append(doc.types, dType{name: "user"})
	t := dType{name: "doc"}
	t.rels = append(t.rels, dRel{name: "b", expr: &dExpr{kind: 3, op: 0, operands: []*dExpr{{kind: 0, restr: []dRestr{{typ: "user"}}}}}},
		dRel{name: "p", expr: &dExpr{kind: 3, op: 0, operands: []*dExpr{{kind: 0, restr: []dRestr{{typ: "doc"}}}}}},
		dRel{name: "x", expr: e})
	for i := 0; i < d; i++ {
		t.rels = append(t.rels, dRel{name: "y" + strconv.Itoa(i), expr: &dExpr{kind: 3, op: 0, operands: []*dExpr{{kind: 1, name: "x"}}}})
		doc.conds = append(doc.conds, dCond{name: "c" + strconv.Itoa(i), params: []dParam{{name: "q", typ: "int"}}, expr: []string{"q", "<", "1"}})
		n += 2
	}
	doc.types = append(doc.types, t)
	tree, b := docTree(doc)
	budget := zzverif.Param("WA", 100000) + zzverif.Param("WB", 1000)*n*n
	if zzverif.Param("MEASURE", 0) == 1 {
		budget = 1 << 40
	}
	var l *OpenFgaDslListener
	var errs *multierror.Error
	zzverif.Stub("ParseDSL lexer+parser = grammar-conforming parse tree of the generated document (validated natively per witness)")
	if !zzverif.Symbolic() {
		zzverif.Budget("dsl-to-model-work-within-quadratic-bound", budget)
		var el *OpenFgaDslErrorListener
		l, el = ParseDSL(strings.Join(b.text, ""))
		errs = el.Errors
		zzverif.BudgetEnd()
	} else {
		el := newOpenFgaDslErrorListener()
		b.p.RemoveErrorListeners()
		b.p.AddErrorListener(el)
		l = newOpenFgaDslListener()
		zzverif.Budget("dsl-to-model-work-within-quadratic-bound", budget)
		antlr.ParseTreeWalkerDefault.Walk(l, tree)
		used := zzverif.BudgetEnd()
		errs = el.Errors
		if zzverif.Param("MEASURE", 0) == 1 {
			zzverif.Observe("listener shape="+strconv.Itoa(shape)+" d="+strconv.Itoa(d)+" n="+strconv.Itoa(n), strconv.Itoa(used))
		}
	}
	zzverif.Assert(errs == nil && l != nil, "nested-document-is-accepted")
	if errs == nil && l != nil {
		zzverif.Assert(len(l.authorizationModel.GetTypeDefinitions()) == 2 && len(l.authorizationModel.GetConditions()) == d, "nested-document-is-read-completely")
		zzverif.Reach("walked")
	}
}
