package transformer

// C15 - fga.mod: accepted file paths are safe, verbatim and correctly located.
//
// The real TransformModFile and the real net/url decoder are executed
// symbolically; yaml.Unmarshal is replaced by a stub that hands out the node
// description built by the harness (natively the real yaml.v3 parses the
// rendered text and the description is read back from it).

import (
	"fmt"
	"io"
	"strings"
	"unicode/utf8"

	"gopkg.in/yaml.v3"

	"github.com/openfga/language/pkg/go/zzverif"
)

//verif:redirect gopkg.in/yaml.v3.Unmarshal verifYAMLUnmarshal
//verif:redirect gopkg.in/yaml.v3.NewDecoder verifYAMLNewDecoder
//verif:redirect (*gopkg.in/yaml.v3.Decoder).Decode verifYAMLDecode

type verifNode struct {
	kind  int // 0 missing, 1 !!str, 2 !!int, 3 !!map, 4 !!null, 5 !!seq
	value string
	line  int
	col   int
	items []*verifNode
	// tagged: an explicit YAML tag written in front of the node (`contents: !!seq {a.fga: b.fga}`): yaml.v3 reports
	// the written tag while the node keeps the kind of what follows the tag
	tagged string
	// props: node properties written in front of the value on the same line (an anchor `&a `, or the tag the value
	// has anyway `!!str `): yaml.v3 reports the line and column of the first property, not of the value, so the value
	// stands len(props) columns to the right of what (line, col) say
	props string
}

var verifYAMLSchema, verifYAMLContents *verifNode
var verifYAMLFail bool

// verifYAMLTrailing: text behind the first YAML document (1: a second document after `---`, 2: text that is not
// YAML after `...`).  yaml.Unmarshal decodes the first document and never looks at the rest (stub and library alike).
var verifYAMLTrailing int

var verifTags = []string{"", "!!str", "!!int", "!!map", "!!null", "!!seq"}

func (n *verifNode) fill(out *yaml.Node) {
	if n == nil || n.kind == 0 {
		return
	}
	out.Tag = verifTags[n.kind]
	if n.tagged != "" {
		out.Tag = n.tagged
	}
	out.Value = n.value
	out.Line = n.line
	out.Column = n.col
	switch n.kind {
	case 5:
		out.Kind = yaml.SequenceNode
		for _, it := range n.items {
			c := &yaml.Node{}
			it.fill(c)
			out.Content = append(out.Content, c)
		}
	case 3:
		out.Kind = yaml.MappingNode
		out.Value = ""
		// {a.fga: b.fga}: key and value nodes
		out.Content = []*yaml.Node{{Kind: yaml.ScalarNode, Tag: "!!str", Value: "a.fga", Line: n.line, Column: n.col + 1}, {Kind: yaml.ScalarNode, Tag: "!!str", Value: "b.fga", Line: n.line, Column: n.col + 8}}
	default:
		out.Kind = yaml.ScalarNode
	}
}

// verifYAMLUnmarshal is the stub contract of yaml.Unmarshal for YAMLModFile:
// each of the two nodes is either left zero (key absent) or carries an
// arbitrary tag/value/line/column (line, column >= 1) and children.
func verifYAMLUnmarshal(in []byte, out interface{}) error {
	zzverif.Stub("yaml.Unmarshal = arbitrary yaml.Node{Tag,Value,Line>=1,Column>=1,Content} per key, or error")
	if verifYAMLFail {
		return fmt.Errorf("yaml: stubbed syntax error")
	}
	y := out.(*YAMLModFile)
	verifYAMLSchema.fill(&y.Schema)
	verifYAMLContents.fill(&y.Contents)
	return nil
}

// the decoder form of the same contract (yaml.NewDecoder + Decode per document): the first Decode is Unmarshal of the
// first document, the next one reports what stands behind it - io.EOF, a second document, or a syntax error
var verifYAMLDecodes int

func verifYAMLNewDecoder(r io.Reader) *yaml.Decoder {
	verifYAMLDecodes = 0
	return &yaml.Decoder{}
}

func verifYAMLDecode(_ *yaml.Decoder, out interface{}) error {
	verifYAMLDecodes++
	if verifYAMLDecodes == 1 {
		return verifYAMLUnmarshal(nil, out)
	}
	switch verifYAMLTrailing {
	case 1:
		if n, ok := out.(*yaml.Node); ok {
			n.Kind, n.Line, n.Column = yaml.DocumentNode, 4, 1
		}
		return nil
	case 2:
		return fmt.Errorf("yaml: stubbed syntax error behind the first document")
	}
	return io.EOF
}

func verifQuoteYAML(s string) string {
	if !utf8.ValidString(s) {
		zzverif.Skip("value is not valid UTF-8: no YAML text renders it")
	}
	var sb strings.Builder
	sb.WriteByte('"')
	for _, r := range s {
		switch {
		case r == '"' || r == '\\':
			sb.WriteByte('\\')
			sb.WriteRune(r)
		case r < 0x20 || r == 0x7f:
			fmt.Fprintf(&sb, "\\x%02x", r)
		case r < 0x7f:
			sb.WriteRune(r)
		case r <= 0xffff:
			fmt.Fprintf(&sb, "\\u%04x", r)
		default:
			fmt.Fprintf(&sb, "\\U%08x", r)
		}
	}
	sb.WriteByte('"')
	return sb.String()
}

func verifRenderScalar(n *verifNode) string {
	if n.props != "" {
		u := *n
		u.props = ""
		return n.props + verifRenderScalar(&u)
	}
	if n.tagged != "" {
		u := *n
		u.tagged = ""
		return n.tagged + " " + verifRenderScalar(&u)
	}
	switch n.kind {
	case 1:
		return verifQuoteYAML(n.value)
	case 2:
		return "12"
	case 3:
		return "{a.fga: b.fga}"
	case 4:
		return "null"
	case 5:
		return "[x]"
	}
	return ""
}

// verifRenderYAML renders the description as YAML text (native replay only).
func verifRenderYAML(schema, contents *verifNode) string {
	var sb strings.Builder
	if schema.kind != 0 {
		sb.WriteString("schema: " + verifRenderScalar(schema) + "\n")
	}
	switch contents.kind {
	case 0:
	case 5:
		sb.WriteString("contents:\n")
		if len(contents.items) == 0 {
			sb.Reset()
			if schema.kind != 0 {
				sb.WriteString("schema: " + verifRenderScalar(schema) + "\n")
			}
			sb.WriteString("contents: []\n")
		}
		for _, it := range contents.items {
			sb.WriteString("  - " + verifRenderScalar(it) + "\n")
		}
	default:
		sb.WriteString("contents: " + verifRenderScalar(contents) + "\n")
	}
	return sb.String()
}

// verifNativeView replaces the description by what the real yaml.v3 reports for
// the rendered text (tags, values, lines, columns).
func verifNativeView(text string, schema, contents *verifNode) {
	y := &YAMLModFile{}
	if err := yaml.Unmarshal([]byte(text), y); err != nil {
		zzverif.Skip("rendered YAML does not parse: " + err.Error())
	}
	read := func(n *yaml.Node, d *verifNode) {
		if n.IsZero() {
			d.kind = 0
			return
		}
		d.value, d.line, d.col = n.Value, n.Line, n.Column
		switch n.Kind {
		case yaml.SequenceNode:
			d.kind = 5
		case yaml.MappingNode:
			d.kind = 3
		default:
			d.kind = 1
			for i, t := range verifTags {
				if t == n.Tag && i > 0 && i != 3 && i != 5 {
					d.kind = i
				}
			}
		}
		d.tagged = ""
		if n.Tag != verifTags[d.kind] {
			d.tagged = n.Tag
		}
	}
	read(&y.Schema, schema)
	read(&y.Contents, contents)
	if contents.kind == 5 {
		if len(y.Contents.Content) != len(contents.items) {
			zzverif.Skip("rendered YAML has a different item count")
		}
		for i, c := range y.Contents.Content {
			want := contents.items[i].value
			read(c, contents.items[i])
			if contents.items[i].kind == 1 && contents.items[i].value != want {
				zzverif.Skip("YAML scalar does not round-trip")
			}
		}
	}
}

func verifGenNode(tag string, kinds int, maxLen int, alphabet string) *verifNode {
	n := &verifNode{kind: 1 + zzverif.Choose(tag+".kind", kinds)}
	if n.kind == 1 {
		n.value = zzverif.Str(tag+".value", 0, maxLen, alphabet)
	} else {
		n.value = "x"
	}
	n.line = zzverif.Int(tag+".line", 1, 100000)
	n.col = zzverif.Int(tag+".col", 1, 100000)
	return n
}

// oracle predicates (branch-free so that they become formulas)

func verifHasDotDotSegment(p string) bool {
	r := false
	for i := 0; i+2 <= len(p); i++ {
		c := zzverif.And(p[i] == '.', p[i+1] == '.')
		if i > 0 {
			c = zzverif.And(c, p[i-1] == '/')
		}
		if i+2 < len(p) {
			c = zzverif.And(c, p[i+2] == '/')
		}
		r = zzverif.Or(r, c)
	}
	return r
}

// verifHasDotDotSlash: the substring "../" anywhere.  This is the rejection rule
// the harness expects for values written without escapes: it covers every '..'
// segment that can occur in a path ending in ".fga" and, beyond what the
// property asks for, exotic segments such as "a../" - the property does not
// require those to be accepted, so the oracle does not either.
func verifHasDotDotSlash(p string) bool {
	r := false
	for i := 0; i+3 <= len(p); i++ {
		r = zzverif.Or(r, zzverif.And(p[i] == '.', zzverif.And(p[i+1] == '.', p[i+2] == '/')))
	}
	return r
}

func verifHasByte(p string, b byte) bool {
	r := false
	for i := 0; i < len(p); i++ {
		r = zzverif.Or(r, p[i] == b)
	}
	return r
}

func verifStartsWithSlash(p string) bool {
	if len(p) == 0 {
		return false
	}
	return p[0] == '/'
}

func verifEndsWithFga(p string) bool {
	if len(p) < 4 {
		return false
	}
	n := len(p)
	return zzverif.And(zzverif.And(p[n-4] == '.', p[n-3] == 'f'), zzverif.And(p[n-2] == 'g', p[n-1] == 'a'))
}

func verifNoSpecial(v string) bool {
	return zzverif.Not(zzverif.Or(zzverif.Or(verifHasByte(v, '%'), verifHasByte(v, '+')), verifHasByte(v, '\\')))
}

// verifC15Check runs TransformModFile on the description and asserts the
// property.  simpleOracle: for values free of '%', '+', '\' the verdict is
// decided by the harness' own predicate (completeness direction).
func verifC15Check(schema, contents *verifNode, fail bool) {
	text := ""
	if !zzverif.Symbolic() {
		if fail {
			text = "schema: [\n"
		} else {
			text = verifRenderYAML(schema, contents)
			verifNativeView(text, schema, contents)
			switch verifYAMLTrailing {
			case 1:
				text += "---\nschema: '1.1'\ncontents:\n  - /etc/passwd\n"
			case 2:
				text += "...\n}{ not yaml: [\n"
			}
		}
	}
	verifYAMLSchema, verifYAMLContents, verifYAMLFail = schema, contents, fail
	mod, err := TransformModFile(text)
	if fail {
		zzverif.Assert(mod == nil && err != nil, "yaml-error-is-returned")
		zzverif.Reach("yaml-error")
		return
	}
	if verifYAMLTrailing != 0 {
		// whatever stands behind the first document is part of the manifest: a second document or text that does not
		// parse must be reported, not ignored
		zzverif.Assert(mod == nil && err != nil, "text-behind-the-first-document-is-reported")
		zzverif.Reach("rejected")
		return
	}
	// expected offending entries, as far as the harness' own oracle decides
	schemaBad := schema.kind != 1 || schema.tagged != "" || schema.value != "1.2"
	// a list is a YAML sequence (whatever tag is written in front of something else does not make it one)
	contentsBad := contents.kind != 5 || (contents.tagged != "" && contents.tagged != "!!seq")
	if err != nil {
		zzverif.Reach("rejected")
		zzverif.Assert(mod == nil, "rejected-returns-no-manifest")
		me, ok := err.(*ModFileValidationMultipleError)
		zzverif.Assert(ok, "error-type")
		if !ok {
			return
		}
		zzverif.Assert(len(me.Errors) >= 1, "rejected-has-errors")
		// every error is located at one of the described nodes (or 0,0 for a missing key)
		idx := 0
		expect := func(n *verifNode, missing bool) {
			if idx >= len(me.Errors) {
				zzverif.Assert(false, "one-error-per-offending-entry")
				return
			}
			e, ok := me.Errors[idx].(*ModFileValidationError)
			idx++
			zzverif.Assert(ok, "error-item-type")
			if !ok {
				return
			}
			if missing {
				zzverif.Assert(zzverif.And(e.Line == 0, e.Column == 0), "missing-key-position")
			} else {
				zzverif.Assert(zzverif.And(e.Line == n.line-1, e.Column == n.col-1), "error-position-is-node-minus-one")
			}
		}
		if schemaBad {
			expect(schema, schema.kind == 0)
		}
		if contentsBad {
			expect(contents, contents.kind == 0)
		} else {
			for _, it := range contents.items {
				if it.kind != 1 || it.tagged != "" {
					expect(it, false)
					continue
				}
				if verifNoSpecial(it.value) {
					// decided by the independent oracle
					if verifStartsWithSlash(it.value) || verifHasDotDotSlash(it.value) || !verifEndsWithFga(it.value) {
						expect(it, false)
					}
					continue
				}
				// value uses escapes: whether it offends is learnt by running the
				// same value alone through the pipeline; what is checked here is
				// the aggregation (one error per offending entry, in order, at the node)
				if verifItemRejected(it.value) {
					expect(it, false)
				}
			}
		}
		zzverif.Assert(idx == len(me.Errors), "one-error-per-offending-entry")
		return
	}
	zzverif.Reach("accepted")
	zzverif.Assert(mod != nil, "accepted-returns-manifest")
	if mod == nil {
		return
	}
	zzverif.Assert(!schemaBad, "accepted-implies-schema-1.2")
	zzverif.Assert(!contentsBad, "accepted-implies-contents-list")
	if schemaBad || contentsBad {
		return
	}
	zzverif.Assert(mod.Schema.Value == "1.2", "schema-value")
	zzverif.Assert(zzverif.And(mod.Schema.Line == schema.line-1, mod.Schema.Column == schema.col-1), "schema-position")
	zzverif.Assert(zzverif.And(mod.Contents.Line == contents.line-1, mod.Contents.Column == contents.col-1), "contents-position")
	zzverif.Assert(len(mod.Contents.Value) == len(contents.items), "never-silently-filtered")
	if len(mod.Contents.Value) != len(contents.items) {
		return
	}
	for i, p := range mod.Contents.Value {
		it := contents.items[i]
		zzverif.Assert(it.kind == 1 && it.tagged == "", "accepted-item-is-string")
		zzverif.Assert(zzverif.Not(verifStartsWithSlash(p.Value)), "relative")
		zzverif.Assert(zzverif.Not(verifHasDotDotSegment(p.Value)), "no-dotdot-segment")
		zzverif.Assert(zzverif.Not(verifHasByte(p.Value, '\\')), "no-backslash")
		zzverif.Assert(verifEndsWithFga(p.Value), "fga-suffix")
		zzverif.Assert(zzverif.Implies(verifNoSpecial(it.value), p.Value == it.value), "verbatim")
		zzverif.Class("item-position", "")
		if it.props != "" {
			zzverif.Class("item-position", "value behind an anchor or an explicit tag")
		}
		zzverif.Assert(zzverif.And(p.Line == it.line-1, p.Column == it.col+len(it.props)-1), "item-position")
		if verifNoSpecial(it.value) {
			// completeness: the independent oracle agrees that it is acceptable
			zzverif.Assert(zzverif.Not(zzverif.Or(zzverif.Or(verifStartsWithSlash(it.value), verifHasDotDotSlash(it.value)), zzverif.Not(verifEndsWithFga(it.value)))), "accepted-only-if-oracle-accepts")
		}
	}
}

// verifItemRejected re-runs the path rules of one value through the real
// pipeline in isolation to learn whether this value is an offending one.
func verifItemRejected(v string) bool {
	s := &verifNode{kind: 1, value: "1.2", line: 1, col: 1}
	c := &verifNode{kind: 5, line: 1, col: 1, items: []*verifNode{{kind: 1, value: v, line: 1, col: 1}}}
	save1, save2, save3, save4 := verifYAMLSchema, verifYAMLContents, verifYAMLFail, verifYAMLTrailing
	verifYAMLSchema, verifYAMLContents, verifYAMLFail, verifYAMLTrailing = s, c, false, 0
	text := ""
	if !zzverif.Symbolic() {
		text = verifRenderYAML(s, c)
	}
	_, err := TransformModFile(text)
	verifYAMLSchema, verifYAMLContents, verifYAMLFail, verifYAMLTrailing = save1, save2, save3, save4
	return err != nil
}

// VerifC15_OnePath: one content entry, arbitrary bytes up to N.
func VerifC15_OnePath() {
	n := zzverif.Param("N", 8)
	alpha := ""
	schema := &verifNode{kind: 1, value: "1.2", line: zzverif.Int("schema.line", 1, 100000), col: zzverif.Int("schema.col", 1, 100000)}
	it := &verifNode{kind: 1, value: zzverif.Str("path", 0, n, alpha), line: zzverif.Int("item.line", 1, 100000), col: zzverif.Int("item.col", 1, 100000)}
	contents := &verifNode{kind: 5, line: zzverif.Int("contents.line", 1, 100000), col: zzverif.Int("contents.col", 1, 100000), items: []*verifNode{it}}
	verifC15Check(schema, contents, false)
}

var verifC15Menu = []string{"a.fga", "b/c.fga", "../x.fga", "/abs.fga", "x.txt", "%2e%2E%2fa.fga", "a%zz.fga", "d\\e.fga", "e+f.fga", "..%5cg.fga"}

// VerifC15_Manifest: arbitrary node kinds for schema/contents, up to K items of
// every kind whose values come from a menu of good and offending paths (the
// symbolic values are covered by OnePath/TwoPaths); yaml failure.
func VerifC15_Manifest() {
	k := zzverif.Param("K", 3)
	if zzverif.Choose("yaml-fails", 2) == 1 {
		verifC15Check(&verifNode{}, &verifNode{}, true)
		return
	}
	schema := &verifNode{}
	if zzverif.Choose("schema.present", 2) == 1 {
		schema = verifGenNode("schema", 3, zzverif.Param("SCHEMALEN", 5), "12. -") // longer than "1.2": a version that merely starts with it is another version
	}
	contents := &verifNode{}
	switch zzverif.Choose("contents.shape", 4) {
	case 3:
		// something that is not a sequence with the tag of one written in front: a mapping, a string, null
		contents = &verifNode{kind: []int{3, 1, 4}[zzverif.Choose("contents.tagged-kind", 3)], value: "core.fga", tagged: "!!seq",
			line: zzverif.Int("contents.line", 1, 100000), col: zzverif.Int("contents.col", 1, 100000)}
		if contents.kind == 4 {
			contents.value = "null"
		}
	case 1:
		contents = verifGenNode("contents", 4, 1, "")
	case 2:
		contents = &verifNode{kind: 5, line: zzverif.Int("contents.line", 1, 100000), col: zzverif.Int("contents.col", 1, 100000)}
		cnt := zzverif.Choose("items", k+1)
		for i := 0; i < cnt; i++ {
			tag := fmt.Sprintf("item%d", i)
			n := &verifNode{kind: 1, line: zzverif.Int(tag+".line", 1, 100000), col: zzverif.Int(tag+".col", 1, 100000)}
			c := zzverif.Choose(tag+".menu", len(verifC15Menu)+3+zzverif.Param("PROPS", 0))
			switch {
			case c < len(verifC15Menu):
				n.value = verifC15Menu[c]
			case c == len(verifC15Menu):
				n.kind, n.value = 2, "x"
			case c == len(verifC15Menu)+1:
				n.kind, n.value = 3, "x"
			case c == len(verifC15Menu)+2:
				// a mapping with the string tag written in front
				n.kind, n.value, n.tagged = 3, "x", "!!str"
			default:
				// a good path behind an anchor or behind the tag it has anyway
				n.value = "a.fga"
				n.props = []string{"&a ", "!!str "}[zzverif.Choose(tag+".props", 2)]
			}
			contents.items = append(contents.items, n)
		}
	}
	verifYAMLTrailing = zzverif.Choose("text-behind-the-document", 1+2*zzverif.Param("TRAILING", 0))
	verifC15Check(schema, contents, false)
}

// VerifC15_TwoPaths: two entries with arbitrary bytes up to N (order, verbatim,
// one error per entry with both values symbolic).
func VerifC15_TwoPaths() {
	n := zzverif.Param("N", 3)
	schema := &verifNode{kind: 1, value: "1.2", line: 1, col: 9}
	contents := &verifNode{kind: 5, line: 2, col: 1}
	for i := 0; i < 2; i++ {
		tag := fmt.Sprintf("item%d", i)
		contents.items = append(contents.items, &verifNode{kind: 1, value: zzverif.Str(tag, 0, n, ""), line: zzverif.Int(tag+".line", 1, 100000), col: zzverif.Int(tag+".col", 1, 100000)})
	}
	verifC15Check(schema, contents, false)
}

// ---- post-decoding rules on longer strings: url.QueryUnescape is stubbed by
// "returns an arbitrary string" (job-level redirect), so the decoded value D is
// symbolic up to N bytes whatever the manifest wrote; natively the entry is D
// with every byte percent-encoded, which the real decoder turns back into D.

var verifDecoded string
var verifDecodeFails bool

func verifUnescapeStub(s string) (string, error) {
	zzverif.Stub("url.QueryUnescape = arbitrary decoded string (post-decoding rules only)")
	if verifDecodeFails {
		return "", fmt.Errorf("invalid URL escape (stub)")
	}
	return verifDecoded, nil
}

func VerifC15_Decoded() {
	n := zzverif.Param("N", 9)
	d := zzverif.Str("decoded", 0, n, "")
	verifDecoded, verifDecodeFails = d, false
	entry := "x"
	if !zzverif.Symbolic() {
		var sb strings.Builder
		for i := 0; i < len(d); i++ {
			fmt.Fprintf(&sb, "%%%02x", d[i])
		}
		entry = sb.String()
	}
	schema := &verifNode{kind: 1, value: "1.2", line: 1, col: 9}
	it := &verifNode{kind: 1, value: entry, line: 3, col: 5}
	contents := &verifNode{kind: 5, line: 2, col: 1, items: []*verifNode{it}}
	text := ""
	if !zzverif.Symbolic() {
		text = verifRenderYAML(schema, contents)
		verifNativeView(text, schema, contents)
	}
	verifYAMLSchema, verifYAMLContents, verifYAMLFail = schema, contents, false
	mod, err := TransformModFile(text)
	// the harness' own verdict on the decoded value
	norm := strings.ReplaceAll(d, "\\", "/")
	offending := zzverif.Or(zzverif.Or(verifStartsWithSlash(norm), verifHasDotDotSlash(norm)), zzverif.Not(verifEndsWithFga(norm)))
	if err != nil {
		zzverif.Reach("rejected")
		zzverif.Assert(mod == nil, "rejected-returns-no-manifest")
		// (a '..' segment not followed by '/' cannot end in .fga, so the code's "../" test is exact)
		zzverif.Assert(offending, "rejected-only-if-the-decoded-path-offends")
		return
	}
	zzverif.Reach("accepted")
	zzverif.Assert(zzverif.Not(offending), "accepted-only-if-the-decoded-path-is-safe")
	if mod == nil || len(mod.Contents.Value) != 1 {
		zzverif.Assert(false, "never-silently-filtered")
		return
	}
	p := mod.Contents.Value[0].Value
	zzverif.Assert(zzverif.Not(verifStartsWithSlash(p)), "relative")
	zzverif.Assert(zzverif.Not(verifHasDotDotSegment(p)), "no-dotdot-segment")
	zzverif.Assert(zzverif.Not(verifHasByte(p, '\\')), "no-backslash")
	zzverif.Assert(verifEndsWithFga(p), "fga-suffix")
	zzverif.Assert(p == norm, "returned-path-is-the-normalised-decoded-value")
}
