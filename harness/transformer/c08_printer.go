package transformer

// C08 (printer part) - structurally valid protobuf models with missing optional
// parts: every optional sub-message may be nil, maps empty, container parameter
// without element type, condition key different from its name, operators
// without operands, unset oneofs.  The monitor is the executor's panic monitor;
// in addition an accepted degenerate rewrite must never print an empty
// definition (C02: an error rather than different DSL).

import (
	"strings"

	openfgav1 "github.com/openfga/api/proto/openfga/v1"

	"github.com/openfga/language/pkg/go/zzverif"
)

func VerifC08_PrinterDegenerate() {
	g := &verifTreeGen{budget: zzverif.Param("NODES", 4), width: 2, degenerate: true}
	u := g.rewrite(zzverif.Param("DEPTH", 2))
	td := &openfgav1.TypeDefinition{Type: "doc", Relations: map[string]*openfgav1.Userset{"rel": u}}
	switch zzverif.Choose("metadata", 4) {
	case 1:
		td.Metadata = &openfgav1.Metadata{}
	case 2:
		td.Metadata = &openfgav1.Metadata{Relations: map[string]*openfgav1.RelationMetadata{"rel": nil}}
	case 3:
		td.Metadata = &openfgav1.Metadata{Relations: map[string]*openfgav1.RelationMetadata{"rel": {DirectlyRelatedUserTypes: []*openfgav1.RelationReference{nil, {Type: "user"}}}}}
	}
	m := &openfgav1.AuthorizationModel{SchemaVersion: "1.1", TypeDefinitions: []*openfgav1.TypeDefinition{td}}
	if zzverif.Choose("nil-typedef", 2) == 1 {
		m.TypeDefinitions = append(m.TypeDefinitions, nil)
	}
	zzverif.Freeze("model", m)
	out, err := TransformJSONProtoToDSL(m, WithIncludeSourceInformation(zzverif.Choose("source-info", 2) == 1))
	if err == nil {
		zzverif.Reach("accepted")
		if !verifWellFormed(u) {
			zzverif.Class("no-empty-definition", "operator without operands")
		}
		zzverif.Assert(!strings.Contains(out, ": \n") && !strings.Contains(out, "()") && !strings.HasSuffix(out, ": "), "no-empty-definition")
	} else {
		zzverif.Reach("rejected")
	}
}

func VerifC08_ConditionsDegenerate() {
	c := &openfgav1.Condition{Name: "c", Parameters: map[string]*openfgav1.ConditionParamTypeRef{"x": {TypeName: openfgav1.ConditionParamTypeRef_TYPE_NAME_INT}}}
	key := "c"
	switch zzverif.Choose("condition", 11) {
	case 9:
		c.Parameters = nil
	case 10:
		c.Parameters = map[string]*openfgav1.ConditionParamTypeRef{}
	case 7:
		c.Parameters = map[string]*openfgav1.ConditionParamTypeRef{"p": {TypeName: openfgav1.ConditionParamTypeRef_TYPE_NAME_LIST, GenericTypes: []*openfgav1.ConditionParamTypeRef{}}}
	case 8:
		c.Parameters = map[string]*openfgav1.ConditionParamTypeRef{"p": {TypeName: openfgav1.ConditionParamTypeRef_TYPE_NAME_MAP, GenericTypes: make([]*openfgav1.ConditionParamTypeRef, 0, 2)}}
	case 0:
		c = nil
	case 1:
		c.Parameters = map[string]*openfgav1.ConditionParamTypeRef{"p": nil}
	case 2:
		c.Parameters = map[string]*openfgav1.ConditionParamTypeRef{"p": {TypeName: openfgav1.ConditionParamTypeRef_TYPE_NAME_LIST}}
	case 3:
		c.Parameters = map[string]*openfgav1.ConditionParamTypeRef{"p": {TypeName: openfgav1.ConditionParamTypeRef_TYPE_NAME_MAP, GenericTypes: []*openfgav1.ConditionParamTypeRef{nil}}}
	case 4:
		key = "other"
	case 5:
		c.Parameters = map[string]*openfgav1.ConditionParamTypeRef{"p": {TypeName: openfgav1.ConditionParamTypeRef_TypeName(99)}}
	case 6:
		c.Metadata = &openfgav1.ConditionMetadata{Module: "m"}
	}
	m := &openfgav1.AuthorizationModel{SchemaVersion: "1.1", Conditions: map[string]*openfgav1.Condition{key: c}}
	zzverif.Freeze("model", m)
	_, err := TransformJSONProtoToDSL(m, WithIncludeSourceInformation(zzverif.Choose("source-info", 2) == 1))
	if err == nil {
		zzverif.Reach("accepted")
	} else {
		zzverif.Reach("rejected")
	}
}
